(* C06 - synchronous dynamics applies independent per-element trials each timestep.
   Statements only; proofs are in Proofs/KernelSync.v, Proofs/Binomial.v, Proofs/KernelSyncLaw.v and
   Proofs/KernelSyncLawAll.v.
   For every world type W, every table (arbitrary user programs), every oracle, every fuel.
   Level note: the probability laws are about [trial p] = {true: p, false: 1-p}; that a uniform
   variate r satisfies r <= p with probability p is the (unproved) reading of the oracle. *)
From Coq Require Import List ZArith QArith Bool Arith.
From EpyV Require Import Lib.Prelude Model.Kernel Model.Compart Proofs.KernelMember Proofs.KernelSync Proofs.Binomial Proofs.KernelSyncLaw Proofs.KernelSyncLawAll.
Import ListNotations.
Open Scope Q_scope.

(* ---------------------------------------------------------------- C06_tranche_char *)
(* allEventsInTimestep equals an explicit function of the loci at the call and of the two
   oracle streams (spec_tranche: per-element events in registration order, then fixed-rate
   events), and consumes exactly tranche_rands variates and tranche_draws ranks, nothing else
   of the state changing ([advance]; an exhausted stream reads 0 and sets stuck). *)
Theorem C06_tranche_char : forall W (tb : table W) (s : st W),
  tranche tb s =
  (spec_tranche tb (loci s) (rands s) (draws s),
   advance (tranche_rands tb (loci s)) 0 (tranche_draws tb (loci s) (rands s) (draws s)) s).
Proof. exact (@tranche_spec). Qed.

(* the specification unfolded, so that it can be read here *)
Theorem C06_spec_unfold : forall W (tb : table W) lc rs ds,
  spec_tranche tb lc rs ds =
    spec_elem lc (per_element tb) rs ++
    spec_fixed lc (fixed_rate tb) (skipn (count_elem lc (per_element tb)) rs) ds /\
  tranche_rands tb lc = (count_elem lc (per_element tb) + count_fixed lc (fixed_rate tb))%nat /\
  tranche_draws tb lc rs ds =
    length (spec_fixed lc (fixed_rate tb) (skipn (count_elem lc (per_element tb)) rs) ds) /\
  (forall x evs rs', spec_elem lc (x :: evs) rs' =
     spec_trials x (ev_p (snd x)) (block lc x) rs' ++ spec_elem lc evs (skipn (length (block lc x)) rs')) /\
  (forall x evs, count_elem lc (x :: evs) = (length (block lc x) + count_elem lc evs)%nat) /\
  (forall x, block lc x = if active lc x then lookup lc x else []) /\
  (forall x, active lc x = true <-> lookup lc x <> [] /\ 0 < ev_p (snd x)) /\
  (forall evs, count_fixed lc evs = length (filter (active lc) evs)).
Proof.
  intros W tb lc rs ds.
  split; [reflexivity|]. split; [reflexivity|]. split; [reflexivity|]. split; [reflexivity|].
  split; [reflexivity|]. split; [reflexivity|]. split; [exact (active_true lc) | reflexivity].
Qed.

(* per-element event x with probability p on elements els (the locus at the start of the step,
   ascending): one variate per element in order, and exactly those with r <= p are selected *)
Theorem C06_trials_filter : forall x p els rs, (length els <= length rs)%nat ->
  spec_trials x p els rs =
  map (fun er => (x, fst er)) (filter (fun er => Qle_bool (snd er) p) (combine els rs)).
Proof. exact spec_trials_filter. Qed.

Theorem C06_trials_model : forall W p x els (s : st W),
  trials p x els s = (spec_trials x p els (rands s), advance (length els) 0 0 s).
Proof. exact (@trials_spec). Qed.

(* fixed-rate events: one variate per active event; iff r <= p, one rank selecting a member *)
Theorem C06_fixed_step : forall lc x evs rs ds,
  spec_fixed lc (x :: evs) rs ds =
  if active lc x then
    if Qle_bool (hd 0 rs) (ev_p (snd x))
    then (x, nth (hd 0%nat ds mod length (lookup lc x)) (lookup lc x) (EN 0)) :: spec_fixed lc evs (tl rs) (tl ds)
    else spec_fixed lc evs (tl rs) ds
  else spec_fixed lc evs rs ds.
Proof. reflexivity. Qed.

(* at most one firing per fixed-rate event per step: the selected events are a subsequence of
   the registered fixed-rate events *)
Theorem C06_fixed_at_most_once : forall lc evs rs ds,
  subseq (map fst (spec_fixed lc evs rs ds)) evs /\ (length (spec_fixed lc evs rs ds) <= length evs)%nat.
Proof.
  intros lc evs rs ds. split; [exact (spec_fixed_subseq lc evs rs ds)|].
  rewrite <- (map_length fst). exact (subseq_length _ _ _ (spec_fixed_subseq lc evs rs ds)).
Qed.

(* in the loop: the tranche of a step is the specification applied to the state left by the
   posted events of that step *)
Theorem C06_step_tranche : forall W (tb : table W) pf t (s : st W),
  sync_step tb pf t s =
  let s1 := snd (run_pending tb pf t 0 (set_clock t s)) in
  let n := fst (run_pending tb pf t 0 (set_clock t s)) in
  fire_tranche tb t (spec_tranche tb (loci s1) (rands s1) (draws s1)) n
    (advance (tranche_rands tb (loci s1)) 0 (tranche_draws tb (loci s1) (rands s1) (draws s1)) (set_clock t s1)).
Proof. exact (@sync_step_eq). Qed.

Theorem C06_loop_step : forall W (tb : table W) pf f t events steps (s : st W),
  sync_loop tb pf (S f) t events steps s =
  if at_equil tb t s then (t, events, steps, s)
  else let '(nev, s3) := sync_step tb pf t s in
       sync_loop tb pf f (Qred (t + 1)) (events + nev) (if (0 <? nev)%nat then S steps else steps) s3.
Proof. exact (@sync_loop_S). Qed.

(* ---------------------------------------------------------------- C06_clock, C06_posted_first *)
(* A synchronous run is the set-up records followed by a sequence of steps; step k (from 0) has
   time k+1; within a step the records of the posted events due by then (posted_rec t: posted
   handlers and their taps with times <= t) all come before the records of the tranche
   (tranche_rec t: handlers entered at time t with clock t on members, taps at t of registered
   events with positive probability).  The reported time is 1 + the number of executed steps,
   the event count is the number of handlers entered, and a run that is not stuck ended because
   atEquilibrium held. *)
Theorem C06_run_structure : forall W (tb : table W) pf fuel rs ds, exists steps,
  let r := sync_run tb pf fuel rs ds in
  r_out r = rev (out (setup_state tb rs [] ds)) ++ flat steps /\
  steps_ok tb 1 steps /\
  r_time r = inject_Z (Z.of_nat (S (length steps))) /\
  r_events r = total_events steps /\
  r_steps r = busy_steps steps /\
  (r_stuck r = false -> at_equil tb (r_time r) (r_final r) = true).
Proof. exact (@sync_run_spec). Qed.

Theorem C06_steps_unfold : forall W (tb : table W) t ti lp lt rest,
  (steps_ok tb t ((ti, lp, lt) :: rest) <->
   ti = t /\ Qle_bool (t_maxtime tb) t = false /\
   Forall (posted_rec t) lp /\ Forall (tranche_rec tb t) lt /\ steps_ok tb (Qred (t + 1)) rest) /\
  flat ((ti, lp, lt) :: rest) = (lp ++ lt) ++ flat rest.
Proof. intros. split; [reflexivity | reflexivity]. Qed.

Theorem C06_clock : forall W (tb : table W) steps k x, steps_ok tb 1 steps -> nth_error steps k = Some x ->
  fst (fst x) = inject_Z (Z.of_nat (S k)) /\
  Forall (posted_rec (inject_Z (Z.of_nat (S k)))) (snd (fst x)) /\
  Forall (tranche_rec tb (inject_Z (Z.of_nat (S k)))) (snd x).
Proof.
  intros W tb steps k x H E. destruct (steps_ok_nth tb steps 1 k x H E) as (H1 & _ & H3 & H4).
  assert (T : time_after 1 k = inject_Z (Z.of_nat (S k))).
  { change 1 with (inject_Z 1). rewrite time_after_inject. f_equal. rewrite Nat2Z.inj_succ. apply Z.add_1_l. }
  rewrite T in *. split; [exact H1 | split; assumption].
Qed.

(* the successive step times are 1, 2, 3, ... exactly (no rounding in the model) *)
Theorem C06_clock_times : forall n z, time_after (inject_Z z) n = inject_Z (z + Z.of_nat n).
Proof. exact time_after_inject. Qed.

(* one step: posted events first (lp is older than lt; out is newest first), counts add up *)
Theorem C06_posted_first : forall W (tb : table W) pf t (s : st W), exists lp lt,
  out (snd (sync_step tb pf t s)) = lt ++ lp ++ out s /\
  Forall (posted_rec t) lp /\ Forall (tranche_rec tb t) lt /\
  fst (sync_step tb pf t s) = (nposted lp + nfired lt)%nat.
Proof. exact (@sync_step_spec). Qed.

(* ---------------------------------------------------------------- the probability laws *)
(* number of successes of n independent trials of probability p *)
Theorem C06_binomial : forall n p k,
  prob (Nat.eqb k) (successes n p) == qn (binom n k) * qpow p k * qpow (1 - p) (n - k).
Proof. exact binomial_law. Qed.

(* Pascal's numbers are n! / (k! (n-k)!) *)
Theorem C06_binom_fact : forall n k, (k <= n)%nat -> (binom n k * (fact k * fact (n - k)) = fact n)%nat.
Proof. exact binom_fact. Qed.

(* an isolated element, one trial per step: first selected at step k *)
Theorem C06_geometric : forall n p k, (1 <= k <= n)%nat ->
  prob (is_some_k k) (first_success n p) == qpow (1 - p) (k - 1) * p.
Proof. exact geometric_law. Qed.

Theorem C06_geometric_never : forall n p,
  prob (fun r => match r with None => true | Some _ => false end) (first_success n p) == qpow (1 - p) n.
Proof. exact geometric_none. Qed.

(* connection to the model: the selection depends on each variate only through [r <= p], picks the
   elements at the successful positions, and selects as many as there are successes; with the
   outcomes distributed as independent trials the number selected from a locus of size n is
   binomial(n, p) *)
Theorem C06_trials_outcomes : forall x p els rs,
  spec_trials x p els rs = map (pair x) (pick (outcomes p (length els) rs) els) /\
  length (spec_trials x p els rs) = ntrue (outcomes p (length els) rs).
Proof. intros. split; [apply spec_trials_pick | apply spec_trials_count]. Qed.

Theorem C06_selected_binomial : forall (x : xev) p els k,
  prob (fun sel => Nat.eqb k (length sel)) (selected_dist x p els) ==
  qn (binom (length els) k) * qpow p k * qpow (1 - p) (length els - k).
Proof. intros. exact (selected_binomial xev x p els k). Qed.

(* ---------------------------------------------------------------- non-vacuity *)
(* locus 0 = {1,2,3} with a per-element event of probability 1/2; locus 1 = {7,8} with a
   fixed-rate event of probability 1/4; a posted event due at 3/2 *)
Definition ex_tb : table unit :=
  {| t_maxtime := 3; t_loci := [(0%nat, [EN 1; EN 2; EN 3]); (0%nat, [EN 7; EN 8])];
     t_procs := [{| p_events := [ {| ev_elem := true; ev_locus := 0; ev_p := 1#2; ev_prog := 0 |};
                                  {| ev_elem := false; ev_locus := 1; ev_p := 1#4; ev_prog := 1 |} ];
                    p_setup := [APost (3#2) 2%nat] |}];
     t_progs := [static []; static []; static [AObserve]];
     t_world := tt; t_equil := fun _ _ => false |}.

(* trial values 1/4, 3/4, 1/2 against p = 1/2 select 1 and 3 (r = p counts); then 1/4 <= 1/4
   fires the fixed-rate event on the member of rank 3 mod 2.  In step 2 the posted event runs
   before the (empty) tranche. *)
Example C06_example :
  let ev0 := {| ev_elem := true; ev_locus := 0; ev_p := 1#2; ev_prog := 0 |} in
  let ev1 := {| ev_elem := false; ev_locus := 1; ev_p := 1#4; ev_prog := 1 |} in
  fst (tranche ex_tb (setup_state ex_tb [1#4; 3#4; 1#2; 1#4] [] [3%nat])) =
    [(0%nat, 0%nat, ev0, EN 1); (0%nat, 0%nat, ev0, EN 3); (0%nat, 1%nat, ev1, EN 8)] /\
  let r := sync_run ex_tb 10 10 [1#4; 3#4; 1#2; 1#4; 1; 1; 1; 1] [3%nat] in
  r_out r = [OPosted 0 (3 # 2); OHandler 0 1 1 (EN 1) (Some true);
             OTap 1 0 (NEv 0 0) (EN 1); OHandler 0 1 1 (EN 3) (Some true);
             OTap 1 0 (NEv 0 0) (EN 3); OHandler 1 1 1 (EN 8) (Some true);
             OTap 1 0 (NEv 0 1) (EN 8); OHandler 2 (3 # 2) (3 # 2) (EN 0) None;
             OObserve (3 # 2) [3%nat; 2%nat]; OTap (3 # 2) 0 (NPost 2) (EN 0)] /\
  r_time r = 3 /\ r_events r = 4%nat /\ r_steps r = 2%nat /\ r_stuck r = false.
Proof. cbv zeta. repeat split; vm_compute; reflexivity. Qed.

Example C06_example_laws :
  prob (Nat.eqb 2) (successes 3 (1#3)) == 2 # 9 /\
  qn (binom 3 2) * qpow (1#3) 2 * qpow (1 - (1#3)) (3 - 2) == 2 # 9 /\
  prob (is_some_k 3) (first_success 5 (1#3)) == 4 # 27.
Proof. repeat split; vm_compute; reflexivity. Qed.

(* ---------------------------------------------------------------- the one-step law *)
(* step_dist: the variates a timestep consumes are replaced by every pattern of outcomes of
   independent trials (success = variate 0, failure = variate 2), each trial with the probability of
   the event it belongs to, and pushed through tranche and fire_tranche. *)
Theorem C06_step_dist_unfold : forall W (tb : table W) A t (s : st W) (view : st W -> A),
  step_dist tb t s view =
  bind (patterns (trial_probs tb (loci s)))
       (fun m => ret (view (snd (tranche_step tb t 0 (with_rands (rands_of m) s))))) /\
  (fixed_rate tb = [] -> length (trial_probs tb (loci s)) = tranche_rands tb (loci s)).
Proof. intros. split; [reflexivity | exact (trial_probs_all tb (loci s))]. Qed.

(* tranche_step is the timestep of the model after its posted events *)
Theorem C06_step_is_tranche_step : forall W (tb : table W) pf t (s : st W),
  sync_step tb pf t s =
  tranche_step tb t (fst (run_pending tb pf t 0 (set_clock t s))) (set_clock t (snd (run_pending tb pf t 0 (set_clock t s)))).
Proof. exact (@sync_step_tranche_step). Qed.

(* The special case proved first, kept under its name (the full statement for every table is
   C06_step_law below): for a table with a single per-element event and no
   fixed-rate event, what a timestep selects is distributed as the image of one independent
   Bernoulli(p) trial per element of the locus, hence its size is binomial. *)
Theorem C06_step_law_partial : forall W (tb : table W) (s : st W) x,
  per_element tb = [x] -> fixed_rate tb = [] -> active (loci s) x = true ->
  0 <= ev_p (snd x) -> ev_p (snd x) < 2 ->
  (forall P, prob P (select_dist tb s) == prob P (selected_dist x (ev_p (snd x)) (lookup (loci s) x))) /\
  (forall k, prob (fun sel => Nat.eqb k (length sel)) (select_dist tb s) ==
             qn (binom (length (lookup (loci s) x)) k) * qpow (ev_p (snd x)) k *
             qpow (1 - ev_p (snd x)) (length (lookup (loci s) x) - k)).
Proof.
  intros W tb s x Hpe Hfr Ha H0 H2. split.
  - exact (select_dist_single tb s x Hpe Hfr Ha H0 H2).
  - exact (select_count_binomial tb s x Hpe Hfr Ha H0 H2).
Qed.

(* non-vacuity of C06_step_law_partial: one event with p = 1/2 on a locus of three elements *)
Definition ex_single : table unit :=
  {| t_maxtime := 2; t_loci := [(0%nat, [EN 1; EN 2; EN 3])];
     t_procs := [{| p_events := [ {| ev_elem := true; ev_locus := 0; ev_p := 1#2; ev_prog := 0 |} ]; p_setup := [] |}];
     t_progs := [static []]; t_world := tt; t_equil := fun _ _ => false |}.

Example C06_step_law_partial_example :
  let s := setup_state ex_single [] [] [] in
  let x := (0%nat, 0%nat, {| ev_elem := true; ev_locus := 0; ev_p := 1#2; ev_prog := 0 |}) in
  per_element ex_single = [x] /\ fixed_rate ex_single = [] /\ active (loci s) x = true /\
  prob (fun sel => Nat.eqb 2 (length sel)) (select_dist ex_single s) == 3 # 8.
Proof. cbv zeta. repeat split; vm_compute; reflexivity. Qed.

(* ---------------------------------------------------------------- the one-step law, every table *)
(* The full statement.  select_dist_full scripts the whole oracle of a timestep's selection: one
   independent trial per element per per-element event (in the order the variates are consumed), then
   the fixed-rate part call by call (fixed_script: one trial per active event and, on success, a rank
   uniform over the locus as it is).  For EVERY table - any number of per-element and fixed-rate events
   on any loci, arbitrary user programs - the selection is distributed as the product law: the
   independent per-event selections (each element of the locus kept iff its own Bernoulli(p) trial
   succeeds) concatenated in registration order, followed by the independent fixed-rate events, each at
   most once with its probability on a uniformly drawn element.  Probabilities in [0, 2) (the scripted
   success value 0 and failure value 2 then decide every comparison r <= p as intended). *)
Theorem C06_step_law : forall W (tb : table W) (s : st W),
  probs_ok (per_element tb) -> probs_ok (fixed_rate tb) ->
  forall P, prob P (select_dist_full tb s) ==
            prob P (bind (selected_all (loci s) (per_element tb))
                         (fun a => bind (fixed_all (loci s) (fixed_rate tb)) (fun b => ret (a ++ b)))).
Proof. exact (@select_dist_full_law). Qed.

(* the definitions, unfolded so that they can be read here *)
Theorem C06_step_law_unfold : forall W (tb : table W) (s : st W) lc x evs,
  select_dist_full tb s =
    bind (patterns (probs_of (loci s) (per_element tb))) (fun m =>
      bind (fixed_script (loci s) (fixed_rate tb)) (fun md =>
        ret (fst (tranche tb (set_oracle (rands_of (m ++ fst md)) (lns s) (snd md) s))))) /\
  probs_of lc (x :: evs) = repeat (ev_p (snd x)) (length (block lc x)) ++ probs_of lc evs /\
  selected_all lc (x :: evs) =
    bind (selected_dist x (ev_p (snd x)) (block lc x)) (fun a => bind (selected_all lc evs) (fun b => ret (a ++ b))) /\
  fixed_all lc (x :: evs) =
    (if active lc x then
       bind (trial (ev_p (snd x))) (fun b : bool =>
         if b then bind (uniform (length (lookup lc x))) (fun k =>
                   bind (fixed_all lc evs) (fun r => ret ((x, nth k (lookup lc x) (EN 0)) :: r)))
         else fixed_all lc evs)
     else fixed_all lc evs) /\
  (forall els p, selected_dist x p els = bind (masks (length els) p) (fun m => ret (map (pair x) (pick m els)))) /\
  (forall n, uniform n = map (fun k => (k, 1 / qn n)) (seq 0 n)) /\
  (probs_ok evs <-> forall y, In y evs -> 0 <= ev_p (snd y) /\ ev_p (snd y) < 2).
Proof. intros. do 6 (split; [reflexivity|]). split; intros H; exact H. Qed.

(* without fixed-rate events (all shipped compartmented models) the law of select_dist *)
Theorem C06_step_law_elements : forall W (tb : table W) (s : st W),
  fixed_rate tb = [] -> probs_ok (per_element tb) ->
  forall P, prob P (select_dist tb s) == prob P (selected_all (loci s) (per_element tb)).
Proof. exact (@select_dist_all). Qed.

(* ... and the STATE after the tranche of the step: the image of that product law under the deterministic firing of the
   selected events in order, with the membership re-check (fire_tranche), started in the state in which the oracle of the
   selection is used up and everything else is as it was.  So the one-step law of any model is the product law of
   independent trials pushed through its own event functions - for every table, every network, every start state. *)
Theorem C06_step_after_law : forall W (tb : table W) A (t : Q) (s : st W) (view : st W -> A),
  probs_ok (per_element tb) -> probs_ok (fixed_rate tb) ->
  forall P, prob P (step_dist_full tb t s view) ==
            prob (fun sel => P (view (snd (fire_tranche tb t sel 0 (after_selection s)))))
                 (bind (selected_all (loci s) (per_element tb))
                       (fun a => bind (fixed_all (loci s) (fixed_rate tb)) (fun b => ret (a ++ b)))).
Proof. exact (@step_dist_full_law). Qed.

Theorem C06_step_after_law_unfold : forall W (tb : table W) A (t : Q) (s : st W) (view : st W -> A),
  step_dist_full tb t s view =
    bind (patterns (probs_of (loci s) (per_element tb))) (fun m =>
      bind (fixed_script (loci s) (fixed_rate tb)) (fun md =>
        ret (view (snd (tranche_step tb t 0 (set_oracle (rands_of (m ++ fst md)) (lns s) (snd md) s)))))) /\
  after_selection s = set_oracle [] (lns s) [] s /\
  (forall n s', tranche_step tb t n s' = let '(evs, s2) := tranche tb s' in fire_tranche tb t evs n s2).
Proof. intros. repeat split. Qed.

(* consequences of the product law.  For an event that eqx singles out, wherever it stands among any
   other events: the number of its elements selected in one step is binomial(|locus|, p) ... *)
Theorem C06_count_binomial : forall eqx lc evs1 x evs2 k,
  eqx x = true -> (forall y, In y (evs1 ++ evs2) -> eqx y = false) ->
  prob (fun sel => Nat.eqb k (count_for eqx sel)) (selected_all lc (evs1 ++ x :: evs2)) ==
  qn (binom (length (block lc x)) k) * qpow (ev_p (snd x)) k * qpow (1 - ev_p (snd x)) (length (block lc x) - k).
Proof. exact selected_all_count. Qed.

(* ... and an active fixed-rate event selects an element with feature Q with probability
   p * #{such elements of its locus} / |locus|: it happens with probability p, on a uniform element *)
Theorem C06_fixed_rate_law : forall eqx Q lc f1 x f2,
  eqx x = true -> (forall y, In y (f1 ++ f2) -> eqx y = false) -> active lc x = true ->
  prob (hit eqx Q) (fixed_all lc (f1 ++ x :: f2)) ==
    ev_p (snd x) * (qn (length (filter Q (lookup lc x))) / qn (length (lookup lc x))) /\
  prob (hit eqx (fun _ => true)) (fixed_all lc (f1 ++ x :: f2)) == ev_p (snd x).
Proof.
  intros eqx Q lc f1 x f2 Hx Hn Ha. split.
  - exact (fixed_all_hit eqx Q lc f1 x f2 Hx Hn Ha).
  - exact (fixed_all_fires eqx lc f1 x f2 Hx Hn Ha).
Qed.

(* both laws have total mass 1, and so has the scripted law of the model's selection *)
Theorem C06_laws_are_distributions : forall lc evs,
  mass (selected_all lc evs) == 1 /\ mass (fixed_all lc evs) == 1.
Proof. intros lc evs. split; [apply mass_selected_all | apply mass_fixed_all]. Qed.

Theorem C06_step_law_mass : forall W (tb : table W) (s : st W),
  probs_ok (per_element tb) -> probs_ok (fixed_rate tb) -> mass (select_dist_full tb s) == 1.
Proof. exact (@select_dist_full_mass). Qed.

(* non-vacuity: two per-element events (p = 1/2 on a locus of two, p = 1/4 on a locus of one) and one
   fixed-rate event (p = 1/3 on the locus of two); both sides of C06_step_law computed *)
Definition ex_full : table unit :=
  {| t_maxtime := 2; t_loci := [(0%nat, [EN 1; EN 2]); (0%nat, [EN 7])];
     t_procs := [{| p_events := [ {| ev_elem := true; ev_locus := 0; ev_p := 1#2; ev_prog := 0 |};
                                  {| ev_elem := true; ev_locus := 1; ev_p := 1#4; ev_prog := 0 |};
                                  {| ev_elem := false; ev_locus := 0; ev_p := 1#3; ev_prog := 0 |} ]; p_setup := [] |}];
     t_progs := [static []]; t_world := tt; t_equil := fun _ _ => false |}.

Example C06_step_law_example :
  let s := setup_state ex_full [] [] [] in
  length (per_element ex_full) = 2%nat /\ length (fixed_rate ex_full) = 1%nat /\
  forallb (fun x => Qle_bool 0 (ev_p (snd x)) && negb (Qle_bool 2 (ev_p (snd x)))) (per_element ex_full ++ fixed_rate ex_full) = true /\
  prob (fun sel => Nat.eqb 2 (length sel)) (select_dist_full ex_full s) == 17 # 48 /\
  prob (fun sel => Nat.eqb 2 (length sel))
       (bind (selected_all (loci s) (per_element ex_full))
             (fun a => bind (fixed_all (loci s) (fixed_rate ex_full)) (fun b => ret (a ++ b)))) == 17 # 48 /\
  mass (select_dist_full ex_full s) == 1.
Proof. cbv zeta. repeat split; vm_compute; reflexivity. Qed.

(* non-vacuity of C06_step_after_law on the shipped SIR table (path 0 - 1 - 2, node 1 infectious, pInfect 1/2,
   pRemove 1/4): the scripted law of the compartments after the step, and the product law pushed through
   fire_tranche, both equal the hand-written product form *)
Example C06_step_after_law_example :
  let tb := sir_table [0; 1; 2]%Z [(0, 1); (1, 2)]%Z [(0, 3); (1, 1); (2, 3)]%Z (1#2) (1#4) in
  let s := set_clock 1 (setup_state tb [] [] []) in
  let want := indep [two 1 (1#2) 3; two 2 (1#4) 1; two 1 (1#2) 3] in
  same_law (assignments [1; 2; 3]%Z 3) (step_dist_full tb 1 s (comps_of [0; 1; 2]%Z)) want = true /\
  same_law (assignments [1; 2; 3]%Z 3)
    (bind (bind (selected_all (loci s) (per_element tb)) (fun a => bind (fixed_all (loci s) (fixed_rate tb)) (fun b => ret (a ++ b))))
          (fun sel => ret (comps_of [0; 1; 2]%Z (snd (fire_tranche tb 1 sel 0 (after_selection s)))))) want = true.
Proof. cbv zeta. split; vm_compute; reflexivity. Qed.

(* The shipped SIR model (Model/Compart.v, the table of harness/compart_coq.py; I = 1, R = 2, S = 3),
   pInfect = 1/2, pRemove = 1/4: the law of the compartments after the first timestep equals the
   hand-written product form - every susceptible node with k infectious neighbours becomes infected
   with probability 1 - (1/2)^k, every infectious node is removed with probability 1/4, independently,
   all read off the start state.  same_law compares the two laws on all 27 assignments and checks
   that both have mass 1 and the model's has none elsewhere. *)
(* path 0 - 1 - 2, node 1 infectious *)
Example C06_step_law_example_path :
  same_law (assignments [1; 2; 3]%Z 3)
    (sir_step [0; 1; 2]%Z [(0, 1); (1, 2)]%Z [(0, 3); (1, 1); (2, 3)]%Z (1#2) (1#4))
    (indep [two 1 (1#2) 3; two 2 (1#4) 1; two 1 (1#2) 3]) = true.
Proof. vm_compute. reflexivity. Qed.

(* triangle, node 0 infectious *)
Example C06_step_law_example_triangle :
  same_law (assignments [1; 2; 3]%Z 3)
    (sir_step [0; 1; 2]%Z [(0, 1); (1, 2); (0, 2)]%Z [(0, 1); (1, 3); (2, 3)]%Z (1#2) (1#4))
    (indep [two 2 (1#4) 1; two 1 (1#2) 3; two 1 (1#2) 3]) = true.
Proof. vm_compute. reflexivity. Qed.

(* triangle, nodes 0 and 1 infectious: node 2 has two infectious neighbours, 1 - (1/2)^2 = 3/4; the two
   chosen edges compete for node 2 and the second is skipped (C05) *)
Example C06_step_law_example_triangle_two :
  same_law (assignments [1; 2; 3]%Z 3)
    (sir_step [0; 1; 2]%Z [(0, 1); (1, 2); (0, 2)]%Z [(0, 1); (1, 1); (2, 3)]%Z (1#2) (1#4))
    (indep [two 2 (1#4) 1; two 2 (1#4) 1; two 1 (3#4) 3]) = true.
Proof. vm_compute. reflexivity. Qed.

(* the explicit table for the path: 8 outcomes *)
Example C06_step_law_example_path_table :
  forallb (fun xq => Qeq_bool (prob (list_eqb Z.eqb (fst xq))
                                (sir_step [0; 1; 2]%Z [(0, 1); (1, 2)]%Z [(0, 3); (1, 1); (2, 3)]%Z (1#2) (1#4))) (snd xq))
    [([1; 1; 1], 3#16); ([1; 1; 3], 3#16); ([3; 1; 1], 3#16); ([3; 1; 3], 3#16);
     ([1; 2; 1], 1#16); ([1; 2; 3], 1#16); ([3; 2; 1], 1#16); ([3; 2; 3], 1#16)]%Z = true.
Proof. vm_compute. reflexivity. Qed.

(* one pattern followed through a whole run of the model (maximum time 2: exactly one timestep):
   trial values 0, 2, 2 = edge (0,1) succeeds, edge (2,1) and the removal of 1 fail *)
Example C06_step_law_example_run :
  let tb := sir_table [0; 1; 2]%Z [(0, 1); (1, 2)]%Z [(0, 3); (1, 1); (2, 3)]%Z (1#2) (1#4) in
  let r := sync_run tb 10 10 [0; 2; 2] [] in
  comps_of [0; 1; 2]%Z (r_final r) = [1; 1; 3]%Z /\ r_time r = 2 /\ r_events r = 1%nat /\ r_stuck r = false /\
  trial_probs tb (loci (setup_state tb [] [] [])) = [1#2; 1#2; 1#4].
Proof. cbv zeta. repeat split; vm_compute; reflexivity. Qed.
