(* C18 - ShuffleK rewiring preserves every node's degree.
   Only statements here; every proof is [exact <lemma of Proofs/Shuffle*.v>] or short glue.
   The random choices of a build are a list of events [evs] (every shuffled edge list, every DrawSet.draw
   outcome); all theorems quantify over every such list and every fuel, and the loop theorems hold for the
   state in which the model stops whatever the reason (Done, out of fuel, or a script that does not fit),
   in particular for every completed build [Done]. *)
From Coq Require Import List ZArith QArith Qround Bool Arith Lia.
From EpyV Require Import Lib.Prelude Model.Shuffle Proofs.Shuffle Proofs.ShuffleLoop.
Import ListNotations.
Local Open Scope nat_scope.

(* ---- one iteration of the loop *)

(* an iteration either leaves the network alone or performs one swap a-b, c-d -> a-d, c-b whose guards
   all held (swap_ok), on four pairwise distinct nodes, c being a node of a's degree *)
Theorem C18_step_swap : forall nodes g0 s s', simple (st_g s) -> swap_step nodes g0 s = Next s' ->
  unchanged s s' \/ exists a b c d, swapped nodes g0 s s' a b c d /\ NoDup [a; b; c; d].
Proof. exact step_distinct. Qed.

Theorem C18_step_degree : forall nodes g0 s s', simple (st_g s) -> swap_step nodes g0 s = Next s' ->
  forall n, deg (st_g s') n = deg (st_g s) n.
Proof. exact step_degree. Qed.

(* no self-loop and no parallel edge is introduced *)
Theorem C18_step_simple : forall nodes g0 s s', simple (st_g s) -> swap_step nodes g0 s = Next s' -> simple (st_g s').
Proof. exact step_simple. Qed.

(* the edge count is unchanged and at most two edges of any reference edge set disappear *)
Theorem C18_step_count : forall nodes g0 s s', simple (st_g s) -> swap_step nodes g0 s = Next s' ->
  length (st_g s') = length (st_g s) /\
  forall orig, nodupu orig -> length (missing orig (st_g s')) <= length (missing orig (st_g s)) + 2.
Proof. exact step_count. Qed.

(* ---- the whole build, for every simple network, every f, every sequence of random choices *)

Theorem C18_degrees : forall nodes g0 f evs fuel, simple g0 -> closed nodes g0 ->
  forall n, deg (st_g (state_of (r_out (build nodes g0 f evs fuel)))) n = deg g0 n.
Proof. intros nodes g0 f evs fuel Hs Hc. exact (inv_deg _ _ _ _ (build_inv nodes g0 f evs fuel Hs Hc)). Qed.

Theorem C18_simple : forall nodes g0 f evs fuel, simple g0 -> closed nodes g0 ->
  simple (st_g (state_of (r_out (build nodes g0 f evs fuel)))).
Proof. intros nodes g0 f evs fuel Hs Hc. exact (inv_simple _ _ _ _ (build_inv nodes g0 f evs fuel Hs Hc)). Qed.

(* same nodes (the node list is not touched and every edge still joins two of them), same number of edges *)
Theorem C18_same_nodes_edges : forall nodes g0 f evs fuel, simple g0 -> closed nodes g0 ->
  let r := build nodes g0 f evs fuel in
  r_nodes r = nodes /\ closed nodes (st_g (state_of (r_out r))) /\ length (st_g (state_of (r_out r))) = length g0.
Proof.
  intros nodes g0 f evs fuel Hs Hc. pose proof (build_inv nodes g0 f evs fuel Hs Hc) as Hi.
  split; [reflexivity | split; [exact (inv_closed _ _ _ _ Hi) | exact (inv_len _ _ _ _ Hi)]].
Qed.

(* a completed build made exactly floor(f*M) swaps ... *)
Theorem C18_swap_count : forall nodes g0 f evs fuel s, simple g0 -> closed nodes g0 ->
  r_out (build nodes g0 f evs fuel) = Done s ->
  st_cnt s = imax_of (length g0) f /\ length (st_swaps s) = imax_of (length g0) f.
Proof.
  intros nodes g0 f evs fuel s Hs Hc H. pose proof (build_done_cnt nodes g0 f evs fuel s Hs Hc H) as E.
  pose proof (build_inv nodes g0 f evs fuel Hs Hc) as Hi. rewrite H in Hi. cbn in Hi.
  split; [exact E | rewrite (inv_swaps _ _ _ _ Hi); exact E].
Qed.

(* ... where imax_of M f is floor(M*f) for f >= 0 *)
Theorem C18_imax_floor : forall M f, (0 <= f)%Q ->
  (inject_Z (Z.of_nat (imax_of M f)) <= inject_Z (Z.of_nat M) * f)%Q /\
  (inject_Z (Z.of_nat M) * f < inject_Z (Z.of_nat (imax_of M f)) + 1)%Q.
Proof. exact imax_of_spec. Qed.

(* ... and misses at most 2*floor(f*M) of the original edges *)
Theorem C18_diff_bound : forall nodes g0 f evs fuel s, simple g0 -> closed nodes g0 ->
  r_out (build nodes g0 f evs fuel) = Done s ->
  length (missing g0 (st_g s)) <= 2 * imax_of (length g0) f.
Proof.
  intros nodes g0 f evs fuel s Hs Hc H. pose proof (build_done_cnt nodes g0 f evs fuel s Hs Hc H) as E.
  pose proof (build_inv nodes g0 f evs fuel Hs Hc) as Hi. rewrite H in Hi. cbn in Hi.
  rewrite <- E. exact (inv_missing _ _ _ _ Hi).
Qed.

(* also while the loop is still running: never more than two original edges per swap made so far *)
Theorem C18_diff_bound_running : forall nodes g0 f evs fuel, simple g0 -> closed nodes g0 ->
  let s := state_of (r_out (build nodes g0 f evs fuel)) in
  length (missing g0 (st_g s)) <= 2 * st_cnt s /\ st_cnt s <= imax_of (length g0) f.
Proof.
  intros nodes g0 f evs fuel Hs Hc. pose proof (build_inv nodes g0 f evs fuel Hs Hc) as Hi.
  split; [exact (inv_missing _ _ _ _ Hi) | exact (inv_cnt _ _ _ _ Hi)].
Qed.

(* identical for f = 0 (no hypothesis on the network at all) *)
Theorem C18_zero_identity : forall nodes g0 evs fuel,
  st_g (state_of (r_out (build nodes g0 0%Q evs fuel))) = g0.
Proof. exact build_zero. Qed.

(* the degree bins computed once at entry are the bins of every later network: they never need updating *)
Theorem C18_bins_valid : forall nodes g0 f evs fuel, simple g0 -> closed nodes g0 ->
  forall k, bin nodes (st_g (state_of (r_out (build nodes g0 f evs fuel)))) k = bin nodes g0 k.
Proof.
  intros nodes g0 f evs fuel Hs Hc. apply bins_valid.
  exact (inv_deg _ _ _ _ (build_inv nodes g0 f evs fuel Hs Hc)).
Qed.

(* the build works on the copy it is given; the model's prototype slot is never written.  (This is true by
   construction of the model; that the implementation behaves like this is what tie B and D check.) *)
Theorem C18_prototype : forall nodes g0 f evs fuel, r_proto (build nodes g0 f evs fuel) = g0.
Proof. reflexivity. Qed.

(* non-vacuity: the 6-cycle, f = 1/4 (one swap asked for), the choices 0-1 / c = 3 / d = 2:
   all hypotheses hold, the build completes, and the network really changes *)
Example C18_example :
  let nodes := [0; 1; 2; 3; 4; 5]%Z in
  let g0 := [(0,1); (1,2); (2,3); (3,4); (4,5); (5,0)]%Z in
  let evs := [Shuf g0; Draw 3 6; Draw 0 2] in
  simple g0 /\ closed nodes g0 /\
  exists s, r_out (build nodes g0 (1#4) evs 10) = Done s /\
            st_g s = [(1,2); (3,4); (4,5); (5,0); (0,2); (3,1)]%Z /\ st_swaps s = [(0, 1, 3, 2)%Z] /\ st_evs s = [].
Proof.
  cbv zeta. split; [|split].
  - split; [cbn; tauto|]. intros e H. cbn in H. intuition (subst; discriminate).
  - intros e H. cbn in H. intuition (subst; cbn; tauto).
  - eexists. split; [vm_compute; reflexivity|]. cbn. auto.
Qed.
