(* C08 - occupied edges and hitting times record a consistent contact tree.
   Statements only; proofs in Proofs/ContactBase.v, ContactForest.v, ContactInv.v, ContactTime.v
   (on top of the C07 development: runs as [Steps], the run invariant [J]).

   The records of Model/Compart.v: [cw_occ] lists the occupied edges as (infected, infector,
   tOccupied) in the order markOccupied set them, [cw_hit] the (node, tHitting) in the order
   markHit set them; both marks are first-only.  [once_model cm]: no event function of the table
   (stochastic or posted) moves a node INTO a compartment that an infection (marking) event takes
   nodes out of, and the infector's compartments are none of those: a node is infected at most
   once.  Holds for SIR, SEIR, SIR_FixedRecovery, Opinion; fails for SIS, SIRS, SIS_FixedRecovery
   (C08_once_tables).  Everything is for every such well-formed table, every network, initial
   assignment, oracle, fuel, both schedulers (every run is a [Steps] sequence: C07_runs_stoch,
   C07_runs_sync).  SIvR is outside C08 (it does not call markHit); SIR_VariableInfection is covered at the end of this file (C08_vi theorems). *)
From Coq Require Import List ZArith QArith Bool Arith Relations Sorted.
From EpyV Require Import Model.Kernel Model.Loci Model.Compart Proofs.KernelLoops
  Proofs.CompartRun Proofs.CompartInv Proofs.CompartDiagram Proofs.CompartModels
  Proofs.ContactBase Proofs.ContactForest Proofs.ContactInv Proofs.ContactTime Proofs.ContactSync Proofs.ContactStoch.
Import ListNotations.

(* ---------------------------------------------------------------- the invariant *)
(* K = the C07 run invariant J, "posted events sit on node elements", and Forest; it holds after
   set-up, at the final state, and on the state every call of the run was entered on *)
Theorem C08_forest_inv : forall cm nodes edges init maxtime monitor rs ls ds cs s,
  let tb := mk_table cm nodes edges init maxtime monitor in
  wf_model cm = true -> once_model cm = true -> graph_okb nodes edges = true -> init_ok cm nodes init = true ->
  Steps tb (setup_state tb rs ls ds) cs s ->
  Forest cm nodes edges init (world s) /\ Forall (fun sc => Forest cm nodes edges init (world (fst sc))) cs.
Proof.
  intros cm nodes edges init maxtime monitor rs ls ds cs s tb Hwf Ho Hg Hi H.
  destruct (K_steps cm nodes edges init maxtime monitor rs ls ds cs s Hwf Ho Hg Hi H) as [A B].
  split; [exact (proj2 (proj2 A))|]. eapply Forall_impl; [|exact B]. intros sc Hk. exact (proj2 (proj2 Hk)).
Qed.

(* preserved by every single call of an event function, whichever scheduler makes it *)
Theorem C08_forest_inv_call : forall cm nodes edges init maxtime monitor (s : st cworld) c,
  let tb := mk_table cm nodes edges init maxtime monitor in
  wf_model cm = true -> once_model cm = true -> K cm nodes edges init s -> call_ok tb c s -> K cm nodes edges init (after tb c s).
Proof. intros cm nodes edges init maxtime monitor s c tb Hwf Ho Hk Hok. exact (K_call cm nodes edges init maxtime monitor s c Hwf Ho Hk Hok). Qed.

(* what Forest says *)
Theorem C08_forest_meaning : forall cm nodes edges init w, Forest cm nodes edges init w ->
  let st := cw_st w in let st0 := Loci.setup (cm_specs cm) nodes edges init in
  (forall v c, getc st v = Some c -> In c (sus cm) -> forall x, In x (cw_occ w) -> child x <> v /\ parent x <> v)
  /\ cw_hit w = map (fun x => (child x, snd x)) (cw_occ w)
  /\ (forall x, In x (cw_occ w) -> adjb edges (child x) (parent x) = true)
  /\ forestL (cw_occ w)
  /\ (forall v c, getc st v = Some c -> In c (sus cm) -> getc st0 v = Some c)
  /\ (forall x, In x (cw_occ w) -> exists c, In c (sus cm) /\ getc st0 (child x) = Some c).
Proof. intros cm nodes edges init w H. exact H. Qed.

(* ---------------------------------------------------------------- C08_unique_parent *)
(* every node with a hitting time has exactly one occupied edge on which it is the infected end,
   and tOccupied of that edge = tHitting of the node; nodes have at most one hitting time *)
Theorem C08_unique_parent : forall cm nodes edges init w n t, Forest cm nodes edges init w -> In (n, t) (cw_hit w) ->
  exists m, In (n, m, t) (cw_occ w) /\ forall m' t', In (n, m', t') (cw_occ w) -> m' = m /\ t' = t.
Proof. intros cm nodes edges init w n t. exact (unique_parent cm nodes edges init w n t). Qed.

Theorem C08_one_hit_per_node : forall cm nodes edges init w, Forest cm nodes edges init w -> NoDup (map fst (cw_hit w)).
Proof. intros cm nodes edges init w. exact (hit_NoDup cm nodes edges init w). Qed.

(* hit nodes are exactly the infected ends of occupied edges; they were susceptible at set-up
   (seeds carry no hitting time); a node that is still susceptible touches no occupied edge *)
Theorem C08_hit_nodes : forall cm nodes edges init w, Forest cm nodes edges init w ->
  (forall n, In n (map fst (cw_hit w)) <-> In n (map child (cw_occ w)))
  /\ (forall n t, In (n, t) (cw_hit w) -> exists c, In c (sus cm) /\ getc (Loci.setup (cm_specs cm) nodes edges init) n = Some c)
  /\ (forall v c, getc (cw_st w) v = Some c -> In c (sus cm) -> forall x, In x (cw_occ w) -> child x <> v /\ parent x <> v).
Proof.
  intros cm nodes edges init w F. split; [intro n; exact (hit_iff_child cm nodes edges init w n F)|].
  split; [intros n t; exact (hit_not_seed cm nodes edges init w n t F) | exact (proj1 F)].
Qed.

(* the edge and the hit were recorded by an infection event function entered from the scheduler on
   that very pair, on a member of its locus, with handler time = clock = the recorded time *)
Theorem C08_event_time : forall cm nodes edges init maxtime monitor rs ls ds cs s n m t,
  let tb := mk_table cm nodes edges init maxtime monitor in
  wf_model cm = true -> once_model cm = true -> graph_okb nodes edges = true -> init_ok cm nodes init = true ->
  Steps tb (setup_state tb rs ls ds) cs s -> In (n, m, t) (cw_occ (world s)) ->
  exists sc x, In sc cs /\ snd sc = CEv x t (EE n m) /\ clock (fst sc) = t /\ call_ok tb (snd sc) (fst sc).
Proof. intros cm nodes edges init maxtime monitor rs ls ds cs s n m t tb. exact (occ_event_time cm nodes edges init maxtime monitor rs ls ds cs s n m t). Qed.

(* the occupied edges are exactly the marks of the run, in call order *)
Theorem C08_occupied_are_infections : forall cm nodes edges init maxtime monitor rs ls ds cs s,
  let tb := mk_table cm nodes edges init maxtime monitor in
  wf_model cm = true -> once_model cm = true -> graph_okb nodes edges = true -> init_ok cm nodes init = true ->
  Steps tb (setup_state tb rs ls ds) cs s -> cw_occ (world s) = infections cm cs.
Proof. intros cm nodes edges init maxtime monitor rs ls ds cs s tb. exact (occ_is_infections cm nodes edges init maxtime monitor rs ls ds cs s). Qed.

(* ---------------------------------------------------------------- C08_times_increase *)
(* the infector's own occupied edge (if it has one: otherwise it is a root) comes earlier in the record *)
Theorem C08_infector_earlier : forall cm nodes edges init w o1 x o2 t', Forest cm nodes edges init w ->
  cw_occ w = o1 ++ x :: o2 -> In (parent x, t') (cw_hit w) -> exists m', In (parent x, m', t') o1.
Proof. intros cm nodes edges init w o1 x o2 t'. exact (infector_earlier cm nodes edges init w o1 x o2 t'). Qed.

(* whenever the times of the infection calls of the run are R-related in call order, so are the
   hitting times of infector and infected.  R := Qle: never-decreasing call times; R := Qlt: strictly
   increasing ones, which is the case under Gillespie dynamics when every ln(1/r) drawn is > 0. *)
Theorem C08_times_increase : forall (R : Q -> Q -> Prop) cm nodes edges init maxtime monitor rs ls ds cs s,
  let tb := mk_table cm nodes edges init maxtime monitor in
  wf_model cm = true -> once_model cm = true -> graph_okb nodes edges = true -> init_ok cm nodes init = true ->
  Steps tb (setup_state tb rs ls ds) cs s -> StronglySorted R (map snd (infections cm cs)) ->
  forall n m t t', In (n, m, t) (cw_occ (world s)) -> In (m, t') (cw_hit (world s)) -> R t' t.
Proof. intros R cm nodes edges init maxtime monitor rs ls ds cs s tb. exact (times_along_tree cm nodes edges init maxtime monitor R rs ls ds cs s). Qed.

(* with C03: in every run that did not exhaust its fuel or oracle the infector's hitting time is
   not later than the infected node's - both schedulers, hypothesis-free apart from p >= 0, ln >= 0 *)
Theorem C08_times_nondecreasing_stoch : forall cm nodes edges init maxtime monitor pf fuel rs ls ds,
  let tb := mk_table cm nodes edges init maxtime monitor in
  wf_model cm = true -> once_model cm = true -> graph_okb nodes edges = true -> init_ok cm nodes init = true ->
  (forall ev, In ev (cm_events cm) -> (0 <= ce_p ev)%Q) -> Forall (Qle 0) ls ->
  let r := stoch_run tb pf fuel rs ls ds in r_stuck r = false ->
  forall n m t t', In (n, m, t) (cw_occ (world (r_final r))) -> In (m, t') (cw_hit (world (r_final r))) -> (t' <= t)%Q.
Proof. intros cm nodes edges init maxtime monitor pf fuel rs ls ds tb. exact (times_stoch cm nodes edges init maxtime monitor pf fuel rs ls ds). Qed.

Theorem C08_times_nondecreasing_sync : forall cm nodes edges init maxtime monitor pf fuel rs ds,
  let tb := mk_table cm nodes edges init maxtime monitor in
  wf_model cm = true -> once_model cm = true -> graph_okb nodes edges = true -> init_ok cm nodes init = true ->
  let r := sync_run tb pf fuel rs ds in r_stuck r = false ->
  forall n m t t', In (n, m, t) (cw_occ (world (r_final r))) -> In (m, t') (cw_hit (world (r_final r))) -> (t' <= t)%Q.
Proof. intros cm nodes edges init maxtime monitor pf fuel rs ds tb. exact (times_sync cm nodes edges init maxtime monitor pf fuel rs ds). Qed.

(* STRICTLY later, synchronous dynamics: for every synchronous run whatsoever (any oracle, any
   fuel, stuck or not) - the tranche of a step is drawn before any of its events fires, a selected
   pair (n, m) had m infectious then, a node infected during the step was susceptible then.  This
   covers timesteps in which several infected neighbours are selected to infect the same node and
   chains n <- m, m <- k inside one step (impossible). *)
Theorem C08_times_strict_sync : forall cm nodes edges init maxtime monitor pf fuel rs ds,
  let tb := mk_table cm nodes edges init maxtime monitor in
  wf_model cm = true -> once_model cm = true -> graph_okb nodes edges = true -> init_ok cm nodes init = true ->
  let r := sync_run tb pf fuel rs ds in
  forall n m t t', In (n, m, t) (cw_occ (world (r_final r))) -> In (m, t') (cw_hit (world (r_final r))) -> (t' < t)%Q.
Proof.
  intros cm nodes edges init maxtime monitor pf fuel rs ds tb Hwf Ho Hg Hi.
  exact (strict_sync cm nodes edges init maxtime monitor Hwf Ho pf fuel rs ds Hg Hi).
Qed.

(* STRICTLY later, Gillespie dynamics: probabilities >= 0, every ln(1/r) the oracle serves > 0 (r in
   (0,1)), and a run that did not exhaust its fuel or oracle (once stuck the model loops on default
   values): the loop time never decreases (C03), every hitting time so far is <= it, and the next
   stochastic event comes dt > 0 later *)
Theorem C08_times_strict_stoch : forall cm nodes edges init maxtime monitor pf fuel rs ls ds,
  let tb := mk_table cm nodes edges init maxtime monitor in
  wf_model cm = true -> once_model cm = true -> graph_okb nodes edges = true -> init_ok cm nodes init = true ->
  (forall ev, In ev (cm_events cm) -> (0 <= ce_p ev)%Q) -> Forall (Qlt 0) ls ->
  let r := stoch_run tb pf fuel rs ls ds in r_stuck r = false ->
  forall n m t t', In (n, m, t) (cw_occ (world (r_final r))) -> In (m, t') (cw_hit (world (r_final r))) -> (t' < t)%Q.
Proof.
  intros cm nodes edges init maxtime monitor pf fuel rs ls ds tb Hwf Ho Hg Hi Hnn Hls.
  exact (strict_stoch cm nodes edges init maxtime monitor Hwf Ho Hnn pf fuel rs ls ds Hg Hi Hls).
Qed.

(* ---------------------------------------------------------------- C08_acyclic *)
(* the occupied edges, oriented infected -> infector: the infector is unique, no cycle, and every
   infected node is joined to exactly one root - a node that was never marked (its tree's seed) *)
Theorem C08_acyclic : forall cm nodes edges init w, Forest cm nodes edges init w ->
  let P := par (cw_occ w) in
  (forall n m m' t t', In (n, m, t) (cw_occ w) -> In (n, m', t') (cw_occ w) -> m = m' /\ t = t')
  /\ (forall n, ~ clos_trans Z P n n)
  /\ (forall n, In n (map fst (cw_hit w)) -> exists r, clos_refl_trans Z P n r /\ ~ In r (map fst (cw_hit w))).
Proof.
  intros cm nodes edges init w F. pose proof (proj1 (proj2 (proj2 (proj2 F)))) as F5. cbv zeta.
  split; [exact (forestL_functional _ F5)|]. split; [exact (forestL_acyclic _ F5)|].
  intros n Hn. apply (hit_iff_child cm nodes edges init w n F) in Hn. destruct (forestL_root _ F5 n Hn) as [r [P R]].
  exists r. split; [exact P|]. intros Hr. apply R. apply (hit_iff_child cm nodes edges init w r F). exact Hr.
Qed.

(* the list form of the same fact: every occupied edge joined a node that no earlier occupied edge
   touches to a different node (pendant-vertex construction of a forest) *)
Theorem C08_forest_list : forall occ, forestL occ <->
  match occ with [] => True | x :: rest => child x <> parent x /\ (forall y, In y rest -> child y <> child x /\ child y <> parent x) /\ forestL rest end.
Proof. intros [|x rest]; reflexivity. Qed.

(* ---------------------------------------------------------------- C08_skeleton *)
(* skeletonise() = the full node set with exactly the occupied edges: a network edge is kept iff
   it is an occupied pair in either orientation, and every occupied pair is a kept edge *)
Theorem C08_skeleton : forall cm nodes edges init maxtime monitor rs ls ds cs s,
  let tb := mk_table cm nodes edges init maxtime monitor in
  wf_model cm = true -> once_model cm = true -> graph_okb nodes edges = true -> init_ok cm nodes init = true ->
  Steps tb (setup_state tb rs ls ds) cs s ->
  let w := world s in
  fst (skeleton w) = nodes
  /\ (forall e, In e (snd (skeleton w)) <-> In e edges /\ exists x, In x (cw_occ w) /\ (e = (child x, parent x) \/ e = (parent x, child x)))
  /\ (forall x, In x (cw_occ w) -> In (child x, parent x) (snd (skeleton w)) \/ In (parent x, child x) (snd (skeleton w))).
Proof.
  intros cm nodes edges init maxtime monitor rs ls ds cs s tb Hwf Ho Hg Hi H. cbv zeta.
  destruct (K_steps cm nodes edges init maxtime monitor rs ls ds cs s Hwf Ho Hg Hi H) as [((_ & _ & Hn & He & _) & _ & F) _].
  destruct (skeleton_spec cm nodes edges init maxtime monitor (world s) F He) as (A & B & C).
  split; [rewrite A; exact Hn | split; [exact B | exact C]].
Qed.

(* ---------------------------------------------------------------- C08_sis_first_hit *)
(* every table, SIS included: the hitting times are the marks of the run applied first-only, so
   the recorded hitting time of a node is the time of the FIRST infection call on it *)
Theorem C08_sis_first_hit : forall cm nodes edges init maxtime monitor rs ls ds cs s,
  let tb := mk_table cm nodes edges init maxtime monitor in
  Steps tb (setup_state tb rs ls ds) cs s ->
  let marks := map (fun x => (child x, snd x)) (infections cm cs) in
  NoDup (map fst (cw_hit (world s)))
  /\ forall n t, In (n, t) (cw_hit (world s)) <-> exists l1 l2, marks = l1 ++ (n, t) :: l2 /\ ~ In n (map fst l1).
Proof.
  intros cm nodes edges init maxtime monitor rs ls ds cs s tb H. cbv zeta.
  pose proof (hits_first_only cm nodes edges init maxtime monitor _ cs s H) as E.
  assert (E0 : cw_hit (world (setup_state tb rs ls ds)) = []).
  { destruct (setup_state_lw tb rs ls ds (mk_table_post_only cm nodes edges init maxtime monitor)) as [_ B]. rewrite B. reflexivity. }
  rewrite E0 in E. fold tb in E. rewrite E. split; [apply first_only_NoDup; constructor|].
  intros n t. rewrite first_only_spec. cbn [In map]. unfold proj_hit. tauto.
Qed.

(* ---------------------------------------------------------------- the shipped tables *)
Example C08_once_tables : forall p q r u,
  once_model (sir_cm p q) = true /\ once_model (seir_cm p q r u) = true /\ once_model (opinion_cm p q) = true
  /\ once_model (sir_fr_cm p q) = true
  /\ once_model (sis_cm p q) = false /\ once_model (sirs_cm p q r) = false /\ once_model (sis_fr_cm p q) = false.
Proof. intros. repeat split; vm_compute; reflexivity. Qed.

Example C08_susceptible_compartments : forall p q r u,
  sus (sir_cm p q) = [3]%Z /\ sus (seir_cm p q r u) = [4; 4]%Z /\ sus (opinion_cm p q) = [1]%Z.
Proof. intros. repeat split; vm_compute; reflexivity. Qed.

(* ---------------------------------------------------------------- non-vacuity *)
(* SIR on the path 0 - 1 - 2, node 0 infected: 0 infects 1, 1 infects 2, under both schedulers *)
Open Scope Q_scope.
Definition ex_cm : cmodel := sir_cm (1 # 2) (1 # 4).
Definition ex_tb : table cworld := mk_table ex_cm [0; 1; 2]%Z [(0, 1); (1, 2)]%Z [(0, 1); (1, 3); (2, 3)]%Z 10 None.

Example C08_example_stoch :
  let r := stoch_run ex_tb 50 50 [1#2; 1#4; 1#2; 1#4; 1#2; 3#4; 1#2; 1#2; 1#2; 1#2; 1#2; 1#2; 1#2]
                     [1; 1; 1; 1; 1; 1; 1; 1] [0; 0; 0; 0; 0; 0; 0]%nat in
  let w := world (r_final r) in
  wf_model ex_cm = true /\ once_model ex_cm = true /\ graph_okb [0; 1; 2]%Z [(0, 1); (1, 2)]%Z = true
  /\ init_ok ex_cm [0; 1; 2]%Z [(0, 1); (1, 3); (2, 3)]%Z = true /\ r_stuck r = false
  /\ cw_occ w = [(1%Z, 0%Z, 4 # 3); (2%Z, 1%Z, 7 # 3)] /\ cw_hit w = [(1%Z, 4 # 3); (2%Z, 7 # 3)]
  /\ skeleton w = ([0; 1; 2], [(0, 1); (1, 2)])%Z.
Proof. cbv zeta. repeat split; vm_compute; reflexivity. Qed.

Example C08_example_sync :
  let r := sync_run ex_tb 50 50 [1#4; 3#4; 1#4; 3#4; 3#4; 1#8; 1#8; 1#8] [] in
  let w := world (r_final r) in
  r_stuck r = false /\ cw_occ w = [(1%Z, 0%Z, 1); (2%Z, 1%Z, 2)] /\ cw_hit w = [(1%Z, 1); (2%Z, 2)]
  /\ skeleton w = ([0; 1; 2], [(0, 1); (1, 2)])%Z.
Proof. cbv zeta. repeat split; vm_compute; reflexivity. Qed.

(* SIS: node 1 is infected at 1, recovers at 2, is infected again at 3: its hitting time stays 1 *)
Example C08_example_sis_first_hit :
  let tb := mk_table (sis_cm 1 1) [0; 1]%Z [(0, 1)]%Z [(0, 1); (1, 2)]%Z 5 None in
  let r := sync_run tb 50 50 [3#2; 1#2; 3#2; 1#2; 3#2; 1#2; 3#2; 3#2] [] in
  r_stuck r = false
  /\ handlers_of_ex (r_out r) = [(1%nat, 1, EE 1 0); (0%nat, 2, EN 1); (1%nat, 3, EE 1 0)]
  /\ cw_hit (world (r_final r)) = [(1%Z, 1)].
Proof. cbv zeta. repeat split; vm_compute; reflexivity. Qed.

(* ---- tie A for the event functions: a program regenerated from the Python source (harness/evsrc.py,
   Model/EvProg.v) whose summary is h IS the event function `handler h` of the tables above, marks
   included: same world, same kernel actions, for every time, element and state.  The per-run
   obligation `summarise src = Some h` (Generated EvSrc_full_<model>.v) instantiates it for every
   registered event function of every shipped model. *)
From EpyV Require Import Model.EvProg Proofs.EvProg.
Theorem C08_event_functions_from_source : forall p h, summarise p = Some h ->
  forall tbl off t e kloci w, interp tbl off p t e kloci w = handler tbl off h t e kloci w.
Proof. exact summarise_sound. Qed.

Example C08_event_functions_example :
  summarise (PEdge [SUnpack; SChange 2; SMarkOcc true; SMarkHit true]) = Some (HLeft 2 true None)
  /\ summarise (PEdge [SUnpack; SChange 2; SMarkOcc true]) = None            (* markHit dropped *)
  /\ summarise (PEdge [SUnpack; SChange 2; SMarkOcc false; SMarkHit true]) = None   (* not first-only *)
  /\ summarise (PEdge [SUnpack; SChange 3]) = Some (HLeft 3 false None)
  /\ summarise (PNode [SSetAttr; SSetAttr]) = Some HNop.
Proof. repeat split; vm_compute; reflexivity. Qed.

(* ================================================================================================
   The contact forest for SIR_VariableInfection (state-dependent event table, Model/KernelDyn.v): every call of
   the dynamic table does to the compartmented part of the world exactly what the corresponding call of the static
   table vi_fcm vm (infect listed as an ordinary event on the SI locus) does, so the invariant Forest and all its
   corollaries above hold for whole VI runs (DSteps), also for the posted-removal subclass.
   Proofs/ContactVI.v, ContactVITime.v, ContactVIMain.v. *)
From EpyV Require Import Model.KernelDyn Model.CompartVI Proofs.CompartRun Proofs.CompartInv Proofs.ContactBase Proofs.ContactInv Proofs.ContactForest Proofs.ContactTime Proofs.KernelDyn Proofs.KernelDynLoops Proofs.KernelDynRun Proofs.CompartVI Proofs.CompartVIMain Proofs.ContactVI Proofs.ContactVITime Proofs.CompartVIQuiet Proofs.CompartVIPost Proofs.ContactVIMain.

Theorem C08_vi_shipped :
  forall p : Q,
         CompartDiagram.wf_model (vi_fcm (sir_vi p)) = true /\
         once_model (vi_fcm (sir_vi p)) = true /\
         sus (vi_fcm (sir_vi p)) = [3%Z] /\
         (forall T : Q,
          0 <= T ->
          CompartDiagram.wf_model (vi_fcm (sir_vi_gen p (Some T))) = true /\
          once_model (vi_fcm (sir_vi_gen p (Some T))) = true).
Proof. exact CVI8_shipped. Qed.

Theorem C08_vi_forest_is_forest :
  forall (vm : vimodel) (nodes : list Z) (edges init : list (Z * Z)) (w : viworld),
         VForest vm nodes edges init w <-> Forest (vi_fcm vm) nodes edges init (vi_base w).
Proof. exact CVI8_forest_is_forest. Qed.

Theorem C08_vi_forest_inv :
  forall (vm : vimodel) (nodes : list Z) (edges init : list (Z * Z)) (inf : list (Z * Z * Q))
           (maxtime : Q) (monitor : option Q) (Xtr : trans viworld -> Prop) (rs ls : list Q) 
           (ds : list nat) (cs : list (st viworld * dcall)) (s : st viworld),
         let D := mk_vitable vm nodes edges init inf maxtime monitor in
         CompartDiagram.wf_model (vi_fcm vm) = true ->
         once_model (vi_fcm vm) = true ->
         graph_okb nodes edges = true ->
         init_ok (vi_fcm vm) nodes init = true ->
         DSteps D Xtr (setup_state (d_tb D) rs ls ds) cs s ->
         VForest vm nodes edges init (world s) /\
         Forall (fun sc : st viworld * dcall => VForest vm nodes edges init (world (fst sc))) cs.
Proof. exact CVI8_forest_inv. Qed.

Theorem C08_vi_forest_inv_call :
  forall (vm : vimodel) (nodes : list Z) (edges init : list (Z * Z)) (inf : list (Z * Z * Q))
           (maxtime : Q) (monitor : option Q) (Xtr : trans viworld -> Prop) (s : st viworld) 
           (c : dcall),
         let D := mk_vitable vm nodes edges init inf maxtime monitor in
         CompartDiagram.wf_model (vi_fcm vm) = true ->
         once_model (vi_fcm vm) = true ->
         KV vm nodes edges init s -> dcall_ok D Xtr c s -> KV vm nodes edges init (dafter D c s).
Proof. exact CVI8_forest_inv_call. Qed.

Theorem C08_vi_forest_final_stoch :
  forall (vm : vimodel) (nodes : list Z) (edges init : list (Z * Z)) (inf : list (Z * Z * Q))
           (maxtime : Q) (monitor : option Q) (pf fuel : nat) (rs ls : list Q) (ds : list nat),
         CompartDiagram.wf_model (vi_fcm vm) = true ->
         once_model (vi_fcm vm) = true ->
         graph_okb nodes edges = true ->
         init_ok (vi_fcm vm) nodes init = true ->
         VForest vm nodes edges init
           (world (r_final (dstoch_run (mk_vitable vm nodes edges init inf maxtime monitor) pf fuel rs ls ds))).
Proof. exact CVI8_forest_final_stoch. Qed.

Theorem C08_vi_forest_final_sync :
  forall (vm : vimodel) (nodes : list Z) (edges init : list (Z * Z)) (inf : list (Z * Z * Q))
           (maxtime : Q) (monitor : option Q) (pf fuel : nat) (rs : list Q) (ds : list nat),
         CompartDiagram.wf_model (vi_fcm vm) = true ->
         once_model (vi_fcm vm) = true ->
         graph_okb nodes edges = true ->
         init_ok (vi_fcm vm) nodes init = true ->
         VForest vm nodes edges init
           (world (r_final (dsync_run (mk_vitable vm nodes edges init inf maxtime monitor) pf fuel rs ds))).
Proof. exact CVI8_forest_final_sync. Qed.

Theorem C08_vi_unique_parent :
  forall (vm : vimodel) (nodes : list Z) (edges init : list (Z * Z)) (w : viworld) (n : Z) (t : Q),
         VForest vm nodes edges init w ->
         In (n, t) (cw_hit (vi_base w)) ->
         exists m : Z,
           In (n, m, t) (cw_occ (vi_base w)) /\
           (forall (m' : Z) (t' : Q), In (n, m', t') (cw_occ (vi_base w)) -> m' = m /\ t' = t).
Proof. exact CVI8_unique_parent. Qed.

Theorem C08_vi_one_hit_per_node :
  forall (vm : vimodel) (nodes : list Z) (edges init : list (Z * Z)) (w : viworld),
         VForest vm nodes edges init w -> NoDup (map fst (cw_hit (vi_base w))).
Proof. exact CVI8_one_hit_per_node. Qed.

Theorem C08_vi_hit_nodes :
  forall (vm : vimodel) (nodes : list Z) (edges init : list (Z * Z)) (w : viworld),
         VForest vm nodes edges init w ->
         (forall n : Z, In n (map fst (cw_hit (vi_base w))) <-> In n (map child (cw_occ (vi_base w)))) /\
         (forall (n : Z) (t : Q),
          In (n, t) (cw_hit (vi_base w)) ->
          exists c : Z, In c (sus (vi_fcm vm)) /\ getc (setup (vim_specs vm) nodes edges init) n = Some c) /\
         (forall v c : Z,
          getc (cw_st (vi_base w)) v = Some c ->
          In c (sus (vi_fcm vm)) ->
          forall x : Z * Z * Q, In x (cw_occ (vi_base w)) -> child x <> v /\ parent x <> v).
Proof. exact CVI8_hit_nodes. Qed.

Theorem C08_vi_acyclic :
  forall (vm : vimodel) (nodes : list Z) (edges init : list (Z * Z)) (w : viworld),
         VForest vm nodes edges init w ->
         let P := par (cw_occ (vi_base w)) in
         (forall (n m m' : Z) (t t' : Q),
          In (n, m, t) (cw_occ (vi_base w)) -> In (n, m', t') (cw_occ (vi_base w)) -> m = m' /\ t = t') /\
         (forall n : Z, ~ clos_trans Z P n n) /\
         (forall n : Z,
          In n (map fst (cw_hit (vi_base w))) ->
          exists r : Z, clos_refl_trans Z P n r /\ ~ In r (map fst (cw_hit (vi_base w)))) /\
         forestL (cw_occ (vi_base w)).
Proof. exact CVI8_acyclic. Qed.

Theorem C08_vi_skeleton :
  forall (vm : vimodel) (nodes : list Z) (edges init : list (Z * Z)) (inf : list (Z * Z * Q))
           (maxtime : Q) (monitor : option Q) (Xtr : trans viworld -> Prop) (rs ls : list Q) 
           (ds : list nat) (cs : list (st viworld * dcall)) (s : st viworld),
         let D := mk_vitable vm nodes edges init inf maxtime monitor in
         CompartDiagram.wf_model (vi_fcm vm) = true ->
         once_model (vi_fcm vm) = true ->
         graph_okb nodes edges = true ->
         init_ok (vi_fcm vm) nodes init = true ->
         DSteps D Xtr (setup_state (d_tb D) rs ls ds) cs s ->
         let w := vi_base (world s) in
         fst (skeleton w) = nodes /\
         (forall e : Z * Z,
          In e (snd (skeleton w)) <->
          In e edges /\
          (exists x : Z * Z * Q, In x (cw_occ w) /\ (e = (child x, parent x) \/ e = (parent x, child x)))) /\
         (forall x : Z * Z * Q,
          In x (cw_occ w) ->
          In (child x, parent x) (snd (skeleton w)) \/ In (parent x, child x) (snd (skeleton w))).
Proof. exact CVI8_skeleton. Qed.

Theorem C08_vi_event_time :
  forall (vm : vimodel) (nodes : list Z) (edges init : list (Z * Z)) (inf : list (Z * Z * Q))
           (maxtime : Q) (monitor : option Q) (Xtr : trans viworld -> Prop) (rs ls : list Q) 
           (ds : list nat) (cs : list (st viworld * dcall)) (s : st viworld) (n m : Z) 
           (t : Q),
         let D := mk_vitable vm nodes edges init inf maxtime monitor in
         CompartDiagram.wf_model (vi_fcm vm) = true ->
         once_model (vi_fcm vm) = true ->
         graph_okb nodes edges = true ->
         init_ok (vi_fcm vm) nodes init = true ->
         DSteps D Xtr (setup_state (d_tb D) rs ls ds) cs s ->
         In (n, m, t) (cw_occ (vi_base (world s))) ->
         exists sc : st viworld * dcall,
           In sc cs /\
           (forall hh : entry, snd sc <> DPost hh) /\
           snd (fst (dcall_args (snd sc))) = t /\
           snd (dcall_args (snd sc)) = EE n m /\ clock (fst sc) = t /\ dcall_ok D Xtr (snd sc) (fst sc).
Proof. exact CVI8_event_time. Qed.

Theorem C08_vi_occupied_are_infections :
  forall (vm : vimodel) (nodes : list Z) (edges init : list (Z * Z)) (inf : list (Z * Z * Q))
           (maxtime : Q) (monitor : option Q) (Xtr : trans viworld -> Prop) (rs ls : list Q) 
           (ds : list nat) (cs : list (st viworld * dcall)) (s : st viworld),
         let D := mk_vitable vm nodes edges init inf maxtime monitor in
         CompartDiagram.wf_model (vi_fcm vm) = true ->
         once_model (vi_fcm vm) = true ->
         graph_okb nodes edges = true ->
         init_ok (vi_fcm vm) nodes init = true ->
         DSteps D Xtr (setup_state (d_tb D) rs ls ds) cs s -> cw_occ (vi_base (world s)) = vinfections vm cs.
Proof. exact CVI8_occupied_are_infections. Qed.

Theorem C08_vi_times_increase :
  forall (R : Q -> Q -> Prop) (vm : vimodel) (nodes : list Z) (edges init : list (Z * Z))
           (inf : list (Z * Z * Q)) (maxtime : Q) (monitor : option Q) (Xtr : trans viworld -> Prop)
           (rs ls : list Q) (ds : list nat) (cs : list (st viworld * dcall)) (s : st viworld),
         let D := mk_vitable vm nodes edges init inf maxtime monitor in
         CompartDiagram.wf_model (vi_fcm vm) = true ->
         once_model (vi_fcm vm) = true ->
         graph_okb nodes edges = true ->
         init_ok (vi_fcm vm) nodes init = true ->
         DSteps D Xtr (setup_state (d_tb D) rs ls ds) cs s ->
         StronglySorted R (map snd (vinfections vm cs)) ->
         forall (n m : Z) (t t' : Q),
         In (n, m, t) (cw_occ (vi_base (world s))) -> In (m, t') (cw_hit (vi_base (world s))) -> R t' t.
Proof. exact CVI8_times_increase. Qed.

Theorem C08_vi_times_strict_sync :
  forall (vm : vimodel) (nodes : list Z) (edges init : list (Z * Z)) (inf : list (Z * Z * Q))
           (maxtime : Q) (monitor : option Q) (pf fuel : nat) (rs : list Q) (ds : list nat),
         CompartDiagram.wf_model (vi_fcm vm) = true ->
         once_model (vi_fcm vm) = true ->
         graph_okb nodes edges = true ->
         init_ok (vi_fcm vm) nodes init = true ->
         let w :=
           vi_base
             (world (r_final (dsync_run (mk_vitable vm nodes edges init inf maxtime monitor) pf fuel rs ds)))
           in
         forall (n m : Z) (t t' : Q), In (n, m, t) (cw_occ w) -> In (m, t') (cw_hit w) -> t' < t.
Proof. exact CVI8_times_strict_sync. Qed.

Theorem C08_vi_times_strict_stoch :
  forall (vm : vimodel) (nodes : list Z) (edges init : list (Z * Z)) (inf : list (Z * Z * Q))
           (maxtime : Q) (monitor : option Q) (pf fuel : nat) (rs ls : list Q) (ds : list nat),
         CompartDiagram.wf_model (vi_fcm vm) = true ->
         once_model (vi_fcm vm) = true ->
         graph_okb nodes edges = true ->
         init_ok (vi_fcm vm) nodes init = true ->
         (forall ev : cevent, In ev (vim_events vm) -> 0 <= ce_p ev) ->
         (forall x : Z * Z * Q, In x inf -> 0 <= snd x) ->
         Forall (Qlt 0) ls ->
         let r := dstoch_run (mk_vitable vm nodes edges init inf maxtime monitor) pf fuel rs ls ds in
         r_stuck r = false ->
         forall (n m : Z) (t t' : Q),
         In (n, m, t) (cw_occ (vi_base (world (r_final r)))) ->
         In (m, t') (cw_hit (vi_base (world (r_final r)))) -> t' < t.
Proof. exact CVI8_times_strict_stoch. Qed.

Example C08_vi_example_hyps :
  CompartDiagram.wf_model (vi_fcm (sir_vi (1 # 4))) = true /\
         once_model (vi_fcm (sir_vi (1 # 4))) = true /\
         graph_okb [0%Z; 1%Z; 2%Z] [(0%Z, 1%Z); (1%Z, 2%Z)] = true /\
         init_ok (vi_fcm (sir_vi (1 # 4))) [0%Z; 1%Z; 2%Z] [(0%Z, 1%Z); (1%Z, 3%Z); (2%Z, 3%Z)] = true.
Proof. exact CVI8_example_hyps. Qed.

Example C08_vi_example_stoch :
  let r :=
           dstoch_run (ex8 None) 50 50 [1 # 2; 1 # 2; 1 # 2; 1 # 2; 1 # 2; 1 # 2; 1 # 2; 1 # 2]
             [3 # 8; 3 # 4; 1; 3] [0%nat; 0%nat] in
         let w := vi_base (world (r_final r)) in
         r_stuck r = false /\
         cw_occ w = [(1%Z, 0%Z, 1 # 2); (2%Z, 1%Z, 7 # 2)] /\
         cw_hit w = [(1%Z, 1 # 2); (2%Z, 7 # 2)] /\
         skeleton w = ([0%Z; 1%Z; 2%Z], [(0%Z, 1%Z); (1%Z, 2%Z)]) /\ Forall (Qlt 0) [3 # 8; 3 # 4; 1; 3].
Proof. exact CVI8_example_stoch. Qed.

Example C08_vi_example_sync :
  let r :=
           dsync_run (ex8 None) 50 50
             [1 # 2; 1 # 4; 1 # 2; 1 # 2; 1 # 8; 1 # 2; 1 # 2; 1 # 2; 1 # 2; 1 # 2; 1 # 2; 1 # 2; 1 # 2] [] in
         let w := vi_base (world (r_final r)) in
         r_stuck r = false /\
         cw_occ w = [(1%Z, 0%Z, 1); (2%Z, 1%Z, 2)] /\
         cw_hit w = [(1%Z, 1); (2%Z, 2)] /\ skeleton w = ([0%Z; 1%Z; 2%Z], [(0%Z, 1%Z); (1%Z, 2%Z)]).
Proof. exact CVI8_example_sync. Qed.

