(* C07 - compartmented models keep a partition and follow their transition diagram.
   Statements only; proofs in Proofs/CompartRun.v (runs as sequences of calls), CompartSort.v,
   CompartInv.v (the run invariant), CompartDiagram.v, CompartFixed.v (posted removals), CompartModels.v.

   Everything is for every table [cm : cmodel] with [wf_model cm = true], every network
   (graph_okb: edges join nodes of the network), every initial assignment (init_ok: it gives every
   node a compartment of the model), every oracle, every fuel, both schedulers, with or without a
   Monitor.  Vocabulary (Proofs/CompartRun.v): [Steps tb s0 cs s] - s is reached from s0 by
   scheduler-internal moves and calls of event functions; cs lists the calls (oldest first), each
   with the state it was entered on; [call_ok] is what holds at the instant of a call (for a
   stochastic / per-element event [CEv x t e]: x is a registered event, e is in the kernel's copy
   of its locus right now, t is the clock); [after tb c s] is the state the call leaves behind.
   C07_runs_* : every run of either scheduler is such a sequence, so "for all Steps from
   set-up" covers set-up, every call and the final state of every run.

   NOT in the Coq model (covered by the direct oracle D of harness/c07.py only): the SIvR vaccine
   gate and SIR_VariableInfection.  The claim is named accordingly (tools/claims.d/C07.json). *)
From Coq Require Import List ZArith QArith Bool Arith.
From EpyV Require Import Model.Kernel Model.Loci Model.Compart
  Proofs.KernelMember Proofs.LociBase Proofs.LociLocus Proofs.LociInv
  Proofs.CompartRun Proofs.CompartSort Proofs.CompartInv Proofs.CompartDiagram Proofs.CompartFixed Proofs.CompartModels.
Import ListNotations.

(* ---------------------------------------------------------------- runs are sequences of calls *)
Theorem C07_runs_stoch : forall cm nodes edges init maxtime monitor pf fuel rs ls ds,
  let tb := mk_table cm nodes edges init maxtime monitor in
  exists cs, Steps tb (setup_state tb rs ls ds) cs (r_final (stoch_run tb pf fuel rs ls ds)).
Proof. intros. exact (stoch_run_steps _ pf fuel rs ls ds). Qed.

Theorem C07_runs_sync : forall cm nodes edges init maxtime monitor pf fuel rs ds,
  let tb := mk_table cm nodes edges init maxtime monitor in
  exists cs, Steps tb (setup_state tb rs [] ds) cs (r_final (sync_run tb pf fuel rs ds)).
Proof. intros. exact (sync_run_steps _ pf fuel rs ds). Qed.

(* every recorded call satisfied call_ok on the state it was entered on, which was itself reached *)
Theorem C07_calls_ok : forall W (tb : table W) s0 cs s sc, Steps tb s0 cs s -> In sc cs ->
  call_ok tb (snd sc) (fst sc) /\ exists cs1 cs2, cs = cs1 ++ sc :: cs2 /\ Steps tb s0 cs1 (fst sc).
Proof. intros W tb s0 cs s sc H Hin. exact (Steps_calls tb s0 cs s H sc Hin). Qed.

(* ---------------------------------------------------------------- the run invariant (a), (b), (c) *)
(* J cm nodes edges s: (a) the kernel's ordered loci are map ksort of the loci of the model;
   (b) those satisfy the C01 invariant WInv for cm_specs cm; (c) node and edge lists are the
   network's and every node has a compartment of cm_comps cm.  It holds after set-up, at the final
   state and on the state every call of the run was entered on. *)
Theorem C07_invariant : forall cm nodes edges init maxtime monitor rs ls ds cs s,
  let tb := mk_table cm nodes edges init maxtime monitor in
  wf_model cm = true -> graph_okb nodes edges = true -> init_ok cm nodes init = true ->
  Steps tb (setup_state tb rs ls ds) cs s ->
  J cm nodes edges s /\ Forall (fun sc => J cm nodes edges (fst sc)) cs.
Proof.
  intros cm nodes edges init maxtime monitor rs ls ds cs s tb Hwf Hg Hi H.
  exact (J_steps cm nodes edges init maxtime monitor rs ls ds cs s (wf_model_loci cm Hwf) Hg Hi H).
Qed.

(* what J says, unfolded *)
Theorem C07_invariant_meaning : forall cm nodes edges (s : st cworld), J cm nodes edges s ->
  let st := cw_st (world s) in
  loci s = map ksort (st_loci st) /\ WInv (cm_specs cm) st /\ st_nodes st = nodes /\ st_edges st = edges
  /\ (forall v, In v nodes -> exists c, getc st v = Some c /\ In c (cm_comps cm))
  /\ (single_orientation (cm_specs cm) = true -> Inv (cm_specs cm) st).
Proof.
  intros cm nodes edges s H. destruct H as (H1 & H2 & H3 & H4 & H5). cbv zeta.
  repeat (split; [assumption|]). intros Hs. apply WInv_Inv; assumption.
Qed.

(* ---------------------------------------------------------------- C07_partition *)
(* at every such point every node has exactly one compartment (getc is a function), one of the
   model's; the sizes results() reports (count_in) are the true counts, over the duplicate-free
   list of the model's compartments they sum to the number of nodes *)
Theorem C07_partition : forall cm nodes edges init maxtime monitor rs ls ds cs s,
  let tb := mk_table cm nodes edges init maxtime monitor in
  wf_model cm = true -> graph_okb nodes edges = true -> init_ok cm nodes init = true ->
  Steps tb (setup_state tb rs ls ds) cs s ->
  let st := cw_st (world s) in
  st_nodes st = nodes /\ st_edges st = edges
  /\ (forall v, In v nodes -> exists c, getc st v = Some c /\ In c (cm_comps cm))
  /\ NoDup (cm_comps cm)
  /\ lsum (map (count_in st) (cm_comps cm)) = length nodes.
Proof.
  intros cm nodes edges init maxtime monitor rs ls ds cs s tb Hwf Hg Hi H.
  exact (partition cm nodes edges s (proj1 (C07_invariant cm nodes edges init maxtime monitor rs ls ds cs s Hwf Hg Hi H))).
Qed.

Theorem C07_count_is_true_count : forall s c,
  count_in s c = length (filter (fun v => match getc s v with Some x => Z.eqb x c | None => false end) (st_nodes s)).
Proof. reflexivity. Qed.

(* ---------------------------------------------------------------- C07_diagram *)
(* every compartment change made by an event function entered from the scheduler (a stochastic or
   per-element event) is an arrow l -> c of the diagram; no other node changes.  (Posted event
   functions: C07_diagram_posted below.) *)
Theorem C07_diagram : forall cm nodes edges init maxtime monitor rs ls ds cs s s1 x t e,
  let tb := mk_table cm nodes edges init maxtime monitor in
  wf_model cm = true -> graph_okb nodes edges = true -> init_ok cm nodes init = true ->
  Steps tb (setup_state tb rs ls ds) cs s -> In (s1, CEv x t e) cs ->
  forall v, getc (cw_st (world (after tb (CEv x t e) s1))) v <> getc (cw_st (world s1)) v ->
  exists l c, getc (cw_st (world s1)) v = Some l /\ getc (cw_st (world (after tb (CEv x t e) s1))) v = Some c
    /\ In (l, c) (diagram cm).
Proof.
  intros cm nodes edges init maxtime monitor rs ls ds cs s s1 x t e tb Hwf Hg Hi H Hin.
  destruct (C07_invariant cm nodes edges init maxtime monitor rs ls ds cs s Hwf Hg Hi H) as [_ Hall].
  exact (call_diagram cm nodes edges init maxtime monitor s1 x t e Hwf
           (proj1 (Forall_forall _ _) Hall _ Hin) (proj1 (Steps_calls tb _ _ _ H _ Hin))).
Qed.

(* the diagrams of the shipped tables (codes: sorted names) *)
Example C07_diagrams : forall p q r u,
  diagram (sir_cm p q) = [(3, 1); (1, 2)]%Z                      (* S>I>R *)
  /\ diagram (sis_cm p q) = [(1, 2); (2, 1)]%Z                   (* I>S, S>I *)
  /\ diagram (sirs_cm p q r) = [(3, 1); (1, 2); (2, 3)]%Z        (* S>I>R>S *)
  /\ diagram (seir_cm p q r u) = [(4, 1); (1, 2); (2, 3)]%Z      (* S>E>I>R *)
  /\ diagram (opinion_cm p q) = [(1, 2); (2, 3)]%Z               (* G>P>T *)
  /\ diagram (sir_fr_cm p q) = [(3, 1); (1, 2)]%Z                (* S>I, posted I>R *)
  /\ diagram (sis_fr_cm p q) = [(2, 1); (1, 2)]%Z.               (* S>I, posted I>S *)
Proof. intros. repeat split; vm_compute; reflexivity. Qed.

Example C07_compartments : forall p q r u,
  cm_comps (sir_cm p q) = [3; 1; 2]%Z /\ cm_comps (sis_cm p q) = [2; 1]%Z /\ cm_comps (sirs_cm p q r) = [1; 2; 3]%Z
  /\ cm_comps (seir_cm p q r u) = [4; 1; 2; 3]%Z /\ cm_comps (opinion_cm p q) = [1; 2; 3]%Z
  /\ cm_comps (sir_fr_cm p q) = [3; 1; 2]%Z /\ cm_comps (sis_fr_cm p q) = [1; 2]%Z.
Proof. intros. repeat split; vm_compute; reflexivity. Qed.

(* ---------------------------------------------------------------- C07_through_infectious_edge *)
(* at the call of an edge event function (infect, affect, stifle) the element (n, m) is an edge of
   the network, n is in the left compartment of the locus and m in (one of) its right
   compartment(s), on the state the call is entered on *)
Theorem C07_through_infectious_edge : forall cm nodes edges init maxtime monitor rs ls ds cs s s1 t e j cev c mark post,
  let tb := mk_table cm nodes edges init maxtime monitor in
  wf_model cm = true -> graph_okb nodes edges = true -> init_ok cm nodes init = true ->
  Steps tb (setup_state tb rs ls ds) cs s -> In (s1, CEv (mpi monitor, j, mk_ev j cev) t e) cs ->
  nth_error (cm_events cm) j = Some cev -> ce_kind cev = HLeft c mark post ->
  let sp := nth (ce_locus cev) (cm_specs cm) default_spec in
  exists n m, e = EE n m /\ (In (n, m) edges \/ In (m, n) edges)
    /\ getc (cw_st (world s1)) n = Some (locus_left sp) /\ right_ok sp (cw_st (world s1)) m.
Proof.
  intros cm nodes edges init maxtime monitor rs ls ds cs s s1 t e j cev c mark post tb Hwf Hg Hi H Hin En Ek.
  destruct (C07_invariant cm nodes edges init maxtime monitor rs ls ds cs s Hwf Hg Hi H) as [_ Hall].
  exact (through_infectious_edge cm nodes edges init maxtime monitor s1 _ t e Hwf
           (proj1 (Forall_forall _ _) Hall _ Hin) (proj1 (Steps_calls tb _ _ _ H _ Hin)) j cev c mark post eq_refl En Ek).
Qed.

(* every stochastic call of a run is on event j of the model, for some j *)
Theorem C07_event_of_call : forall cm nodes edges init maxtime monitor pi j ev,
  In (pi, j, ev) (all_events (mk_table cm nodes edges init maxtime monitor)) <->
  pi = mpi monitor /\ exists cev, nth_error (cm_events cm) j = Some cev /\ ev = mk_ev j cev.
Proof. intros. apply all_events_mk. Qed.

(* ---------------------------------------------------------------- C07_fixed_recovery *)
(* the infection event function entered at time t on (n, m) posts, with T >= 0, a fresh live one-shot
   entry for node n with the (node) removal program k due at Qred (t + T), and records
   OPosted id (t + T) (so C04 applies to it: Properties/C04.v, C04_posted_fate_stoch/_sync) *)
Theorem C07_fixed_recovery_posts : forall cm nodes edges init maxtime monitor rs ls ds cs s s1 t e j cev c mark T k n m,
  let tb := mk_table cm nodes edges init maxtime monitor in
  wf_model cm = true -> graph_okb nodes edges = true -> init_ok cm nodes init = true ->
  Steps tb (setup_state tb rs ls ds) cs s -> In (s1, CEv (mpi monitor, j, mk_ev j cev) t e) cs ->
  nth_error (cm_events cm) j = Some cev -> ce_kind cev = HLeft c mark (Some (T, k)) -> e = EE n m ->
  let s' := after tb (CEv (mpi monitor, j, mk_ev j cev) t e) s1 in
  let y := {| e_time := Qred (t + T); e_id := nextid s1; e_live := true; e_proc := mpi monitor;
              e_elem := EN n; e_prog := k; e_rep := None |} in
  (0 <= T)%Q /\ posted_node_prog cm k = true /\ queue s' = y :: queue s1 /\ nextid s' = S (nextid s1)
  /\ exists l, out s' = OTap t (mpi monitor) (NEv (mpi monitor) j) e :: OPosted (nextid s1) (Qred (t + T)) :: l ++ out s1.
Proof.
  intros cm nodes edges init maxtime monitor rs ls ds cs s s1 t e j cev c mark T k n m tb Hwf Hg Hi H Hin En Ek Ee.
  destruct (C07_invariant cm nodes edges init maxtime monitor rs ls ds cs s Hwf Hg Hi H) as [_ Hall].
  exact (fixed_recovery_posts cm nodes edges init maxtime monitor s1 _ t e Hwf
           (proj1 (Forall_forall _ _) Hall _ Hin) (proj1 (Steps_calls tb _ _ _ H _ Hin)) j cev c mark T k n m eq_refl En Ek Ee).
Qed.

(* [fixed_ok cm]: no stochastic event moves a node out of a compartment from which a posted event
   function takes it (trivially true when nothing is posted).  For such tables and networks whose
   node list has no repetition the run invariant extends to the queue (G = J, posted entries sit on
   nodes, ids are distinct, FQ: a pending posted node program HNode c' for node n => it is one-shot
   and n is in some l with l -> c' a posted arrow of the diagram, FU: at most one such entry per node) *)
Theorem C07_fixed_invariant : forall cm nodes edges init maxtime monitor rs ls ds cs s,
  let tb := mk_table cm nodes edges init maxtime monitor in
  wf_model cm = true -> fixed_ok cm = true -> graph_okb nodes edges = true -> init_ok cm nodes init = true -> NoDup nodes ->
  Steps tb (setup_state tb rs ls ds) cs s ->
  G cm nodes edges s /\ Forall (fun sc => G cm nodes edges (fst sc)) cs.
Proof. intros cm nodes edges init maxtime monitor rs ls ds cs s tb. exact (G_steps cm nodes edges init maxtime monitor rs ls ds cs s). Qed.

(* C07_diagram for posted event functions: when one fires it moves exactly its own node, along a
   posted arrow of the diagram (I -> R, I -> S for the fixed-recovery variants) *)
Theorem C07_diagram_posted : forall cm nodes edges init maxtime monitor rs ls ds cs s s1 h,
  let tb := mk_table cm nodes edges init maxtime monitor in
  wf_model cm = true -> fixed_ok cm = true -> graph_okb nodes edges = true -> init_ok cm nodes init = true -> NoDup nodes ->
  Steps tb (setup_state tb rs ls ds) cs s -> In (s1, CPost h) cs ->
  forall v, getc (cw_st (world (after tb (CPost h) s1))) v <> getc (cw_st (world s1)) v ->
  exists l c, getc (cw_st (world s1)) v = Some l /\ getc (cw_st (world (after tb (CPost h) s1))) v = Some c
    /\ In (l, c) (posted_arrows cm) /\ In (l, c) (diagram cm) /\ e_elem h = EN v /\ pnode cm (e_prog h) c.
Proof.
  intros cm nodes edges init maxtime monitor rs ls ds cs s s1 h tb Hwf Hfx Hg Hi Hnd H Hin.
  destruct (G_steps cm nodes edges init maxtime monitor rs ls ds cs s Hwf Hfx Hg Hi Hnd H) as [_ Hall].
  exact (posted_diagram cm nodes edges init maxtime monitor s1 h (proj1 (Forall_forall _ _) Hall _ Hin) (proj1 (Steps_calls tb _ _ _ H _ Hin))).
Qed.

(* a node in such a compartment (I of the fixed-recovery variants) is left alone by every
   stochastic event: only its posted removal takes it out *)
Theorem C07_fixed_recovery_only_exit : forall cm nodes edges init maxtime monitor rs ls ds cs s s1 x t e,
  let tb := mk_table cm nodes edges init maxtime monitor in
  wf_model cm = true -> fixed_ok cm = true -> graph_okb nodes edges = true -> init_ok cm nodes init = true ->
  Steps tb (setup_state tb rs ls ds) cs s -> In (s1, CEv x t e) cs ->
  forall v l, getc (cw_st (world s1)) v = Some l -> (exists c', In (l, c') (posted_arrows cm)) ->
  getc (cw_st (world (after tb (CEv x t e) s1))) v = Some l.
Proof.
  intros cm nodes edges init maxtime monitor rs ls ds cs s s1 x t e tb Hwf Hfx Hg Hi H Hin.
  destruct (C07_invariant cm nodes edges init maxtime monitor rs ls ds cs s Hwf Hg Hi H) as [_ Hall].
  exact (stochastic_spares_sources cm nodes edges init maxtime monitor s1 x t e Hwf Hfx
           (proj1 (Forall_forall _ _) Hall _ Hin) (proj1 (Steps_calls tb _ _ _ H _ Hin))).
Qed.

(* the whole clause: a node infected at time t (entry y posted) - at every later point of the run,
   either y is still pending and the node has not left the infected compartment(s), or y was fired
   by exactly one later call, a posted call whose handler time is Qred (t + T), and that call moved
   the node (and nothing else) along a posted arrow.  (That a pending entry IS fired when the clock
   passes its time, unless the run ends first, is C04.) *)
Theorem C07_fixed_recovery : forall cm nodes edges init maxtime monitor rs ls ds cs s cs1 s1 j cev t n m cs2 c mark T k,
  let tb := mk_table cm nodes edges init maxtime monitor in
  wf_model cm = true -> fixed_ok cm = true -> graph_okb nodes edges = true -> init_ok cm nodes init = true -> NoDup nodes ->
  Steps tb (setup_state tb rs ls ds) cs s ->
  cs = cs1 ++ (s1, CEv (mpi monitor, j, mk_ev j cev) t (EE n m)) :: cs2 ->
  nth_error (cm_events cm) j = Some cev -> ce_kind cev = HLeft c mark (Some (T, k)) ->
  let y := {| e_time := Qred (t + T); e_id := nextid s1; e_live := true; e_proc := mpi monitor;
              e_elem := EN n; e_prog := k; e_rep := None |} in
  (In y (queue s) /\ forall c', pnode cm k c' -> exists l, getc (cw_st (world s)) n = Some l /\ In (l, c') (posted_arrows cm))
  \/ (exists s2, In (s2, CPost y) cs2 /\ call_time (CPost y) = Qred (t + T)
        /\ (forall s3 h3, In (s3, CPost h3) cs2 -> e_id h3 = e_id y -> s3 = s2 /\ h3 = y)
        /\ forall v, getc (cw_st (world (after tb (CPost y) s2))) v <> getc (cw_st (world s2)) v ->
              v = n /\ exists l c', getc (cw_st (world s2)) n = Some l /\ getc (cw_st (world (after tb (CPost y) s2))) n = Some c'
                /\ In (l, c') (posted_arrows cm) /\ pnode cm k c').
Proof.
  intros cm nodes edges init maxtime monitor rs ls ds cs s cs1 s1 j cev t n m cs2 c mark T k tb.
  exact (fixed_recovery_fate cm nodes edges init maxtime monitor rs ls ds cs s cs1 s1 j cev t n m cs2 c mark T k).
Qed.

Example C07_fixed_ok_tables : forall p q r u,
  fixed_ok (sir_fr_cm p q) = true /\ fixed_ok (sis_fr_cm p q) = true /\ fixed_ok (sir_cm p q) = true
  /\ fixed_ok (sis_cm p q) = true /\ fixed_ok (sirs_cm p q r) = true /\ fixed_ok (seir_cm p q r u) = true
  /\ fixed_ok (opinion_cm p q) = true
  /\ posted_arrows (sir_fr_cm p q) = [(1, 2); (1, 2)]%Z /\ posted_arrows (sis_fr_cm p q) = [(1, 2); (1, 2)]%Z.
Proof. intros. repeat split; vm_compute; reflexivity. Qed.

(* ---------------------------------------------------------------- C07_quiescent *)
(* the Gillespie loop leaves through the branch a = 0 with nothing pending ... *)
Theorem C07_quiescent_exit : forall cm nodes edges init maxtime monitor pf f t ev (s : st cworld),
  let tb := mk_table cm nodes edges init maxtime monitor in
  at_equil tb t s = false -> Qeq_bool (sum_rates s (transitions tb)) 0 = true -> head (queue (discard s)) = None ->
  stoch_loop tb pf (S f) t ev s = (t, ev, discard s) /\ world (discard s) = world s /\ loci (discard s) = loci s.
Proof.
  intros cm nodes edges init maxtime monitor pf f t ev s tb H1 H2 H3.
  split; [exact (stoch_loop_quiescent_exit cm nodes edges init maxtime monitor pf f t ev s H1 H2 H3) | split; reflexivity].
Qed.

(* ... and then, the probabilities being >= 0, nothing qualifies for any per-element event of
   positive probability: its locus is empty and, by the invariant, so is the set it tracks *)
Theorem C07_quiescent : forall cm nodes edges init maxtime monitor rs ls ds cs s,
  let tb := mk_table cm nodes edges init maxtime monitor in
  wf_model cm = true -> graph_okb nodes edges = true -> init_ok cm nodes init = true ->
  Steps tb (setup_state tb rs ls ds) cs s ->
  (forall ev, In ev (cm_events cm) -> (0 <= ce_p ev)%Q) ->
  Qeq_bool (sum_rates s (transitions tb)) 0 = true ->
  forall cev, In cev (cm_events cm) -> ce_elem cev = true -> (0 < ce_p cev)%Q ->
  let sp := nth (ce_locus cev) (cm_specs cm) default_spec in
  let st := cw_st (world s) in
  truth sp st = []
  /\ (forall l r, sp = EdgeLocus l r -> forall a b, In (a, b) edges \/ In (b, a) edges ->
        ~ (getc st a = Some l /\ getc st b = Some r))                          (* no S-I edge when p_infect > 0 *)
  /\ (forall c, sp = NodeLocus c -> forall v, In v nodes -> getc st v <> Some c). (* no I node when p_remove > 0 *)
Proof.
  intros cm nodes edges init maxtime monitor rs ls ds cs s tb Hwf Hg Hi H Hnn Hz cev Hin Hel Hp. cbv zeta.
  pose proof (proj1 (C07_invariant cm nodes edges init maxtime monitor rs ls ds cs s Hwf Hg Hi H)) as Hj.
  split; [|split].
  - destruct (truth _ _) as [|x l] eqn:E; [reflexivity|]. exfalso.
    apply (quiescent cm nodes edges init maxtime monitor s Hwf Hj Hnn Hz cev Hin Hel Hp x). apply truth_In. rewrite E. left. reflexivity.
  - intros l r Hsp. exact (quiescent_no_edge cm nodes edges init maxtime monitor s Hwf Hj Hnn Hz cev l r Hin Hel Hp Hsp).
  - intros c Hsp. exact (quiescent_no_node cm nodes edges init maxtime monitor s Hwf Hj Hnn Hz cev c Hin Hel Hp Hsp).
Qed.

(* ---------------------------------------------------------------- the shipped tables are well formed *)
Example C07_wf_tables : forall p q r u,
  wf_model (sir_cm p q) = true /\ wf_model (sis_cm p q) = true /\ wf_model (sirs_cm p q r) = true
  /\ wf_model (seir_cm p q r u) = true /\ wf_model (opinion_cm p q) = true.
Proof. intros. repeat split; vm_compute; reflexivity. Qed.

Example C07_wf_fixed_recovery : forall p T, Qle_bool 0 T = true ->
  wf_model (sir_fr_cm p T) = true /\ wf_model (sis_fr_cm p T) = true.
Proof. intros p T H. unfold wf_model, sir_fr_cm, sis_fr_cm. cbn. rewrite H. split; reflexivity. Qed.

Example C07_tables_orientation : forall p q r u,
  single_orientation (cm_specs (sir_cm p q)) = true /\ single_orientation (cm_specs (seir_cm p q r u)) = true
  /\ single_orientation (cm_specs (opinion_cm p q)) = false.
Proof. intros. repeat split; vm_compute; reflexivity. Qed.

(* ---------------------------------------------------------------- non-vacuity *)
(* SIR (pInfect 1/2, pRemove 1/4) on the path 0 - 1 - 2 with node 0 infected: a Gillespie run to
   quiescence and a synchronous run, by vm_compute through mk_table; the hypotheses of the
   theorems hold, the final state is all-removed, both ends are reached through an I neighbour *)
Open Scope Q_scope.
Definition ex_cm : cmodel := sir_cm (1 # 2) (1 # 4).
Definition ex_tb : table cworld := mk_table ex_cm [0; 1; 2]%Z [(0, 1); (1, 2)]%Z [(0, 1); (1, 3); (2, 3)]%Z 10 None.

Example C07_example_stoch :
  let r := stoch_run ex_tb 50 50 [1#2; 1#4; 1#2; 1#4; 1#2; 3#4; 1#2; 1#2; 1#2; 1#2; 1#2; 1#2; 1#2]
                     [1; 1; 1; 1; 1; 1; 1; 1] [0; 0; 0; 0; 0; 0; 0]%nat in
  wf_model ex_cm = true /\ graph_okb [0; 1; 2]%Z [(0, 1); (1, 2)]%Z = true
  /\ init_ok ex_cm [0; 1; 2]%Z [(0, 1); (1, 3); (2, 3)]%Z = true
  /\ r_stuck r = false /\ r_events r = 5%nat /\ r_time r = 29 # 3
  /\ handlers_of_ex (r_out r) = [(0%nat, 4 # 3, EE 1 0); (0%nat, 7 # 3, EE 2 1); (1%nat, 11 # 3, EN 0); (1%nat, 17 # 3, EN 1); (1%nat, 29 # 3, EN 2)]
  /\ map (getc (cw_st (world (r_final r)))) [0; 1; 2]%Z = [Some 2; Some 2; Some 2]%Z
  /\ map (count_in (cw_st (world (r_final r)))) (cm_comps ex_cm) = [0; 0; 3]%nat
  /\ loci (r_final r) = [[]; []]
  /\ Qeq_bool (sum_rates (r_final r) (transitions ex_tb)) 0 = true.
Proof. cbv zeta. repeat split; vm_compute; reflexivity. Qed.

Example C07_example_sync :
  let r := sync_run ex_tb 50 50 [1#4; 3#4; 1#4; 3#4; 3#4; 1#8; 1#8; 1#8] [] in
  r_stuck r = false /\ r_events r = 5%nat /\ r_time r = 10
  /\ handlers_of_ex (r_out r) = [(0%nat, 1, EE 1 0); (0%nat, 2, EE 2 1); (1%nat, 3, EN 0); (1%nat, 3, EN 1); (1%nat, 3, EN 2)]
  /\ map (getc (cw_st (world (r_final r)))) [0; 1; 2]%Z = [Some 2; Some 2; Some 2]%Z.
Proof. cbv zeta. repeat split; vm_compute; reflexivity. Qed.

(* SIR_FixedRecovery, T = 3/2, same network: the seed 0 is removed at 3/2, node 1 (infected at 1) at
   5/2, node 2 (infected at 2) at 7/2, under both schedulers *)
Example C07_example_fixed_recovery :
  let tb := mk_table (sir_fr_cm 1 (3 # 2)) [0; 1; 2]%Z [(0, 1); (1, 2)]%Z [(0, 1); (1, 3); (2, 3)]%Z 6 None in
  let r := sync_run tb 50 50 [1#2; 1#2; 1#2; 1#2] [] in
  let r' := stoch_run tb 50 50 [1#2; 1#2; 1#2; 1#2; 1#2; 1#2] [1; 1; 1; 1] [0; 0; 0; 0]%nat in
  wf_model (sir_fr_cm 1 (3 # 2)) = true /\ fixed_ok (sir_fr_cm 1 (3 # 2)) = true
  /\ init_ok (sir_fr_cm 1 (3 # 2)) [0; 1; 2]%Z [(0, 1); (1, 3); (2, 3)]%Z = true
  /\ r_stuck r = false /\ handlers_of_ex (r_out r) = [(0%nat, 1, EE 1 0); (0%nat, 2, EE 2 1)]
  /\ posted_of_ex (r_out r) = [(1%nat, 3 # 2, EN 0); (1%nat, 5 # 2, EN 1); (1%nat, 7 # 2, EN 2)]
  /\ r_stuck r' = false /\ handlers_of_ex (r_out r') = [(0%nat, 1, EE 1 0); (0%nat, 2, EE 2 1)]
  /\ posted_of_ex (r_out r') = [(1%nat, 3 # 2, EN 0); (1%nat, 5 # 2, EN 1); (1%nat, 7 # 2, EN 2)]
  /\ map (getc (cw_st (world (r_final r)))) [0; 1; 2]%Z = [Some 2; Some 2; Some 2]%Z.
Proof. cbv zeta. repeat split; vm_compute; reflexivity. Qed.

(* ---- the vaccine gate of SIvR.infect (Model/CompartV.v; co-executed with the implementation by Tie/CompartV.v) *)
From EpyV Require Import Model.CompartV Proofs.CompartV.

(* a vaccine of efficacy 1 that has taken effect prevents infection, for every value the generator can return *)
Theorem C07_vaccine_full : forall tbl off0 c eff off iN iV t n m kloci w r rest,
  (eff == 1)%Q -> effective w off t n = true -> vw_gate w = r :: rest -> (r < 1)%Q ->
  vhandler tbl off0 (VInfect c eff off iN iV) t (EE n m) kloci w = (pop_gate w, []).
Proof. exact vaccine_full. Qed.

(* a vaccine of efficacy 0 changes nothing: the node is infected exactly as an unvaccinated one
   (same compartment change, same occupied-edge mark), for every generator value r > 0 *)
Theorem C07_vaccine_none : forall tbl off0 c eff off iN iV t n m kloci w,
  (eff == 0)%Q -> (forall r rest, vw_gate w = r :: rest -> (0 < r)%Q) -> (effective w off t n = true -> vw_gate w <> []) ->
  let res := fst (vhandler tbl off0 (VInfect c eff off iN iV) t (EE n m) kloci w) in
  cw_st (vw_base res) = fst (change_compartment tbl (cw_st (vw_base w)) n c) /\
  cw_occ (vw_base res) = mark_occupied (n, m) t (cw_occ (vw_base w)) /\
  cw_hit (vw_base res) = cw_hit (vw_base w).
Proof. exact vaccine_none. Qed.

Theorem C07_vaccine_not_in_effect : forall tbl off0 c eff off iN iV t n m kloci w,
  effective w off t n = false ->
  vhandler tbl off0 (VInfect c eff off iN iV) t (EE n m) kloci w = v_infect tbl off0 c iN t n m kloci w.
Proof. exact vaccine_not_effective. Qed.

Example C07_vaccine_example :
  let w := {| vw_base := {| cw_st := Loci.setup [EdgeLocus 3 1; NodeLocus 1] [0;1]%Z [(0,1)]%Z [(0,3);(1,1)]%Z; cw_occ := []; cw_hit := [] |};
              vw_vacc := [(0%Z, 0%Q)]; vw_gate := [(1#2)%Q] |} in
  effective w (1#4) 1 0%Z = true /\
  vhandler [EdgeLocus 3 1; NodeLocus 1] 0 (VInfect 1 1 (1#4) 2 3) 1 (EE 0 1) [[EE 0 1]; [EN 1]; []; []] w = (pop_gate w, []) /\
  getc (cw_st (vw_base (fst (vhandler [EdgeLocus 3 1; NodeLocus 1] 0 (VInfect 1 0 (1#4) 2 3) 1 (EE 0 1) [[EE 0 1]; [EN 1]; []; []] w)))) 0%Z = Some 1%Z.
Proof. vm_compute. repeat split; reflexivity. Qed.

(* ---- tie A for the event functions: the programs that harness/evsrc.py regenerates from the Python
   source on every run (Model/EvProg.v) are, as far as compartments, loci and posted events go, the
   event functions `handler h` that the tables above are built from.  The per-run obligation
   `summarise_comp src = Some (comp_part h)` for every registered event function of every shipped
   model is what instantiates this theorem (Generated EvSrc_comp_<model>.v). *)
From EpyV Require Import Model.EvProg Proofs.EvProg.
Theorem C07_event_functions_from_source : forall p cs, summarise_comp p = Some cs ->
  forall h, comp_part h = cs -> h <> HObs ->
  forall tbl off t e kloci w,
    cw_st (fst (interp tbl off p t e kloci w)) = cw_st (fst (handler tbl off h t e kloci w)) /\
    snd (interp tbl off p t e kloci w) = snd (handler tbl off h t e kloci w).
Proof. exact summarise_comp_sound. Qed.

Example C07_event_functions_example :
  summarise_comp (PEdge [SUnpack; SChange 2; SMarkOcc true; SMarkHit true; SUnpack; SSetAttr; SPost (3 # 2) 1%nat])
  = Some (comp_part (HLeft 2 true (Some (3 # 2, 1%nat))))
  /\ summarise_comp (PEdge [SChange 2]) = None                    (* n used before it is bound *)
  /\ summarise_comp (PEdge [SUnpack; SChange 2; SChange 3]) = None (* two compartment changes *)
  /\ summarise_comp (PNode [SChange 3]) = Some (CNode 3).
Proof. repeat split; vm_compute; reflexivity. Qed.

(* the same for SIvR: infect (the vaccine gate: vaccinated, vaccination time + offset < t, rng.random() > efficacy,
   the two plain loci) and remove, regenerated from sivr_model.py on every run (Generated EvSrc_SIvR.v) *)
From EpyV Require Import Model.EvProgV Proofs.EvProgV.
Theorem C07_sivr_event_functions_from_source : forall p k, vsummarise p = Some k ->
  forall tbl off0 t e kloci w, vinterp tbl off0 p t e kloci w = vhandler tbl off0 k t e kloci w.
Proof. exact vsummarise_sound. Qed.

Example C07_sivr_event_functions_example :
  vsummarise (VGated [SUnpack; SSetAttr] (1 # 4) (3 # 4) [SChange 1; SMarkOcc true; SEnter 3%nat] [SChange 1; SMarkOcc true; SEnter 2%nat])
  = Some (VInfect 1 (3 # 4) (1 # 4) 2%nat 3%nat)
  /\ vsummarise (VGated [SUnpack] (1 # 4) (3 # 4) [SChange 1; SMarkOcc true; SEnter 3%nat] [SChange 2; SMarkOcc true; SEnter 2%nat]) = None
  /\ vsummarise (VPlain (PNode [SChange 2; SSetAttr; SLeave 3%nat; SLeave 2%nat])) = Some (VRemove 2 2%nat 3%nat).
Proof. repeat split; vm_compute; reflexivity. Qed.

(* ================================================================================================
   SIR_VariableInfection: whole runs over the state-dependent event table of Model/KernelDyn.v (Model/CompartVI.v,
   co-executed through Tie/CompartVI.v).  VJ is the run invariant of the static-table models (kernel loci = sorted
   handler loci, C01's loci invariant, fixed network, every node in a compartment of the model) applied to the
   variable-infection table; the posted-removal subclass of the harness (vim_seed_post = Some _) is covered by the
   run theorems, its posted removals by co-execution only. Proofs: Proofs/KernelDyn*.v, CompartVI.v, CompartVIMain.v. *)
From EpyV Require Import Model.KernelDyn Model.CompartVI Proofs.KernelDyn Proofs.KernelDynLoops Proofs.KernelDynRun
  Proofs.KernelDynStatic Proofs.CompartVI Proofs.CompartVIMain.

Theorem C07_vi_table_facts : forall p,
  vi_nopost (sir_vi p) = true /\ wf_loci (vim_specs (sir_vi p)) = true
  /\ vi_arrows (sir_vi p) = [(1, 2); (3, 1)]%Z                     (* I > R, S > I *)
  /\ cm_comps (vi_cm (sir_vi p)) = [3; 2; 1]%Z.
Proof. exact CVI_sir_vi_facts. Qed.

Theorem C07_vi_runs_stoch : forall vm nodes edges init inf maxtime monitor pf fuel rs ls ds,
  wf_loci (vim_specs vm) = true -> graph_okb nodes edges = true -> init_ok (vi_cm vm) nodes init = true ->
  let D := mk_vitable vm nodes edges init inf maxtime monitor in
  exists cs, DSteps D (fun _ => True) (setup_state (d_tb D) rs ls ds) cs (r_final (dstoch_run D pf fuel rs ls ds))
    /\ VJ vm nodes edges (r_final (dstoch_run D pf fuel rs ls ds)) /\ Forall (fun sc => VJ vm nodes edges (fst sc)) cs.
Proof. exact CVI_vi_stoch_run. Qed.

Theorem C07_vi_runs_sync : forall vm nodes edges init inf maxtime monitor pf fuel rs ds,
  wf_loci (vim_specs vm) = true -> graph_okb nodes edges = true -> init_ok (vi_cm vm) nodes init = true ->
  let D := mk_vitable vm nodes edges init inf maxtime monitor in
  exists cs, DSteps D (Xpos) (setup_state (d_tb D) rs [] ds) cs (r_final (dsync_run D pf fuel rs ds))
    /\ VJ vm nodes edges (r_final (dsync_run D pf fuel rs ds)) /\ Forall (fun sc => VJ vm nodes edges (fst sc)) cs.
Proof. exact CVI_vi_sync_run. Qed.

Theorem C07_vi_partition : forall vm nodes edges (s : st viworld), VJ vm nodes edges s ->
  let st := cw_st (vi_base (world s)) in
  st_nodes st = nodes /\ st_edges st = edges
  /\ (forall v, In v nodes -> exists c, getc st v = Some c /\ In c (cm_comps (vi_cm vm)))
  /\ NoDup (cm_comps (vi_cm vm))
  /\ lsum (map (count_in st) (cm_comps (vi_cm vm))) = length nodes.
Proof. exact CVI_vi_partition. Qed.

Theorem C07_vi_diagram : forall vm nodes edges init inf maxtime monitor Xtr c (s : st viworld),
  let D := mk_vitable vm nodes edges init inf maxtime monitor in
  VJ vm nodes edges s -> dcall_ok D Xtr c s -> (forall h, c <> DPost h) ->
  forall v, getc (cw_st (vi_base (world (dafter D c s)))) v <> getc (cw_st (vi_base (world s))) v ->
  exists l c', getc (cw_st (vi_base (world s))) v = Some l /\ getc (cw_st (vi_base (world (dafter D c s)))) v = Some c'
    /\ In (l, c') (vi_arrows vm).
Proof. exact CVI_vi_diagram. Qed.

Theorem C07_vi_only_observe_queued : forall vm nodes edges init inf maxtime monitor Xtr rs ls ds cs (s : st viworld),
  let D := mk_vitable vm nodes edges init inf maxtime monitor in
  vi_nopost vm = true -> DSteps D Xtr (setup_state (d_tb D) rs ls ds) cs s ->
  qinv (vi_posted vm) s /\ Forall (fun sc => qinv (vi_posted vm) (fst sc)) cs.
Proof. exact CVI_vi_only_observe_queued. Qed.

Theorem C07_vi_posted_inert : forall vm nodes edges init inf maxtime monitor Xtr h (s : st viworld),
  let D := mk_vitable vm nodes edges init inf maxtime monitor in
  qinv (vi_posted vm) s -> dcall_ok D Xtr (DPost h) s ->
  world (dafter D (DPost h) s) = world s /\ loci (dafter D (DPost h) s) = loci s.
Proof. exact CVI_vi_posted_inert. Qed.

Theorem C07_vi_through_infectious_edge : forall vm nodes edges init inf maxtime monitor Xtr pi d t (s : st viworld) l r,
  let D := mk_vitable vm nodes edges init inf maxtime monitor in
  VJ vm nodes edges s -> dcall_ok D Xtr (DDyn pi d t) s ->
  nth (vim_si vm) (vim_specs vm) default_spec = EdgeLocus l r ->
  exists n m, de_value d = EE n m /\ de_prog d = vi_infect_prog vm /\ pi = vi_mpi monitor
    /\ (In (n, m) edges \/ In (m, n) edges)
    /\ getc (cw_st (vi_base (world s))) n = Some l /\ getc (cw_st (vi_base (world s))) m = Some r.
Proof. exact CVI_vi_through_infectious_edge. Qed.

Theorem C07_vi_entries_are_SI_edges : forall vm nodes edges (s : st viworld) l r,
  VJ vm nodes edges s -> (vim_si vm < length (vim_specs vm))%nat ->
  nth (vim_si vm) (vim_specs vm) default_spec = EdgeLocus l r -> Z.eqb l r = false ->
  ssorted (nth (vim_si vm) (loci s) []) /\
  forall e, In e (nth (vim_si vm) (loci s) []) <->
    exists n m, e = EE n m /\ (In (n, m) edges \/ In (m, n) edges)
      /\ getc (cw_st (vi_base (world s))) n = Some l /\ getc (cw_st (vi_base (world s))) m = Some r.
Proof. exact CVI_vi_entries. Qed.

Example C07_vi_example_hyps :
  vi_nopost (sir_vi (1#4)) = true /\ wf_loci (vim_specs (sir_vi (1#4))) = true
  /\ graph_okb [0; 1; 2]%Z [(0, 1); (1, 2)]%Z = true
  /\ init_ok (vi_cm (sir_vi (1#4))) [0; 1; 2]%Z [(0, 1); (1, 3); (2, 3)]%Z = true
  /\ inf_covers [(0, 1); (1, 2)]%Z (initial_infectivities [(0, 1); (1, 2)]%Z [1#2; 1#4]) = true.
Proof. exact CVI_example_hyps. Qed.

Example C07_vi_example_stoch :
  let r := dstoch_run (ex_vi None) 50 50 [1#2; 1#2; 1#2; 1#2; 1#2; 1#2] [3#8; 3#4; 1] [0%nat] in
  r_out r = [OHandler 1 (1 # 2) (1 # 2) (EE 1 0) (Some true); OTap (1 # 2) 0 (NEv 0 1) (EE 1 0);
             OHandler 0 (3 # 2) (3 # 2) (EN 0) (Some true); OTap (3 # 2) 0 (NEv 0 0) (EN 0);
             OHandler 1 (7 # 2) (7 # 2) (EE 2 1) (Some true); OTap (7 # 2) 0 (NEv 0 1) (EE 2 1)]
  /\ r_time r = 7 # 2 /\ r_events r = 3%nat /\ r_stuck r = false
  /\ loci (r_final r) = [[]; [EN 1; EN 2]]
  /\ draws (r_final r) = []                                        (* exactly one rank was consumed: by the removal *)
  /\ cw_occ (vi_base (world (r_final r))) = [(1, 0, 1 # 2); (2, 1, 7 # 2)]%Z
  /\ Forall unit_rand [1#2; 1#2; 1#2; 1#2; 1#2; 1#2].
Proof. exact CVI_example_stoch. Qed.

Example C07_vi_example_sync :
  let r := dsync_run (ex_vi (Some 1)) 50 50 [1#2; 1#4; 1#8; 7#8; 1#2] [] in
  r_out r = [OPostedRep 0; OHandler 2 0 0 (EN 0) None; OObserve 0 [1%nat; 1%nat]; OTap 0 0 (NPost 2) (EN 0);
             OHandler 2 1 1 (EN 0) None; OObserve 1 [1%nat; 1%nat]; OTap 1 0 (NPost 2) (EN 0);
             OHandler 1 1 1 (EE 1 0) (Some true); OTap 1 1 (NEv 1 1) (EE 1 0);
             OHandler 2 2 2 (EN 0) None; OObserve 2 [1%nat; 2%nat]; OTap 2 0 (NPost 2) (EN 0);
             OHandler 0 2 2 (EN 0) (Some true); OTap 2 1 (NEv 1 0) (EN 0)]
  /\ r_time r = 3 /\ r_events r = 5%nat /\ r_steps r = 2%nat /\ r_stuck r = false
  /\ loci (r_final r) = [[EE 2 1]; [EN 1]].
Proof. exact CVI_example_sync. Qed.

(* ================================================================================================
   SIR_VariableInfection, continued: the infectivities never change, quiescence (the Gillespie loop leaves through
   total rate 0 with nothing pending only when no S-I edge has positive infectivity and, for pRemove > 0, no node is
   infected), the counts of the final state, and the posted-removal subclass: every call, posted ones included,
   moves nodes only along S>I or I>R.  Proofs/CompartVIQuiet.v, CompartVIPost.v, ContactVIMain.v. *)
From EpyV Require Import Model.KernelDyn Model.CompartVI Proofs.CompartRun Proofs.CompartInv Proofs.ContactBase Proofs.ContactInv Proofs.ContactForest Proofs.ContactTime Proofs.KernelDyn Proofs.KernelDynLoops Proofs.KernelDynRun Proofs.CompartVI Proofs.CompartVIMain Proofs.ContactVI Proofs.ContactVITime Proofs.CompartVIQuiet Proofs.CompartVIPost Proofs.ContactVIMain.

Theorem C07_vi_infectivity_constant :
  forall (vm : vimodel) (nodes : list Z) (edges init : list (Z * Z)) (inf : list (Z * Z * Q))
           (maxtime : Q) (monitor : option Q) (Xtr : trans viworld -> Prop) (rs ls : list Q) 
           (ds : list nat) (cs : list (st viworld * dcall)) (s : st viworld),
         let D := mk_vitable vm nodes edges init inf maxtime monitor in
         DSteps D Xtr (setup_state (d_tb D) rs ls ds) cs s ->
         vi_inf (world s) = inf /\ Forall (fun sc : st viworld * dcall => vi_inf (world (fst sc)) = inf) cs.
Proof. exact CVI7_infectivity_constant. Qed.

Theorem C07_vi_quiescent_exit :
  forall (vm : vimodel) (nodes : list Z) (edges init : list (Z * Z)) (inf : list (Z * Z * Q))
           (maxtime : Q) (monitor : option Q) (pf f : nat) (t : Q) (ev : nat) (s : st viworld),
         let D := mk_vitable vm nodes edges init inf maxtime monitor in
         KernelMember.at_equil (d_tb D) t s = false ->
         Qeq_bool (dsum_rates s (dtransitions D (loci s) (world s))) 0 = true ->
         head (queue (discard s)) = None -> dstoch_loop D pf (S f) t ev s = (t, ev, discard s).
Proof. exact CVI7_quiescent_exit. Qed.

Theorem C07_vi_quiescent :
  forall (vm : vimodel) (nodes : list Z) (edges init : list (Z * Z)) (inf : list (Z * Z * Q))
           (maxtime : Q) (monitor : option Q) (s : st viworld),
         let D := mk_vitable vm nodes edges init inf maxtime monitor in
         vi_nonneg vm (world s) ->
         Qeq_bool (dsum_rates s (dtransitions D (loci s) (world s))) 0 = true ->
         (forall e : Kernel.elem, In e (nth (vim_si vm) (loci s) []) -> de_p (vi_entry vm (world s) e) == 0) /\
         (forall cev : cevent,
          In cev (vim_events vm) -> ce_elem cev = true -> 0 < ce_p cev -> locus s (ce_locus cev) = []).
Proof. exact CVI7_quiescent. Qed.

Theorem C07_vi_quiescent_no_edge :
  forall (vm : vimodel) (nodes : list Z) (edges init : list (Z * Z)) (inf : list (Z * Z * Q))
           (maxtime : Q) (monitor : option Q) (s : st viworld) (l r : Z),
         let D := mk_vitable vm nodes edges init inf maxtime monitor in
         VJ vm nodes edges s ->
         vi_nonneg vm (world s) ->
         Qeq_bool (dsum_rates s (dtransitions D (loci s) (world s))) 0 = true ->
         (vim_si vm < length (vim_specs vm))%nat ->
         nth (vim_si vm) (vim_specs vm) default_spec = EdgeLocus l r ->
         (l =? r)%Z = false ->
         forall n m : Z,
         In (n, m) edges \/ In (m, n) edges ->
         getc (cw_st (vi_base (world s))) n = Some l ->
         getc (cw_st (vi_base (world s))) m = Some r ->
         forall p : Q, infectivity (vi_inf (world s)) n m = Some p -> p == 0.
Proof. exact CVI7_quiescent_no_edge. Qed.

Theorem C07_vi_quiescent_no_node :
  forall (vm : vimodel) (nodes : list Z) (edges init : list (Z * Z)) (inf : list (Z * Z * Q))
           (maxtime : Q) (monitor : option Q) (s : st viworld) (cev : cevent) (c : Z),
         let D := mk_vitable vm nodes edges init inf maxtime monitor in
         VJ vm nodes edges s ->
         vi_nonneg vm (world s) ->
         Qeq_bool (dsum_rates s (dtransitions D (loci s) (world s))) 0 = true ->
         In cev (vim_events vm) ->
         ce_elem cev = true ->
         0 < ce_p cev ->
         (ce_locus cev < length (vim_specs vm))%nat ->
         nth (ce_locus cev) (vim_specs vm) default_spec = NodeLocus c ->
         forall v : Z, In v nodes -> getc (cw_st (vi_base (world s))) v <> Some c.
Proof. exact CVI7_quiescent_no_node. Qed.

Theorem C07_vi_counts_stoch :
  forall (vm : vimodel) (nodes : list Z) (edges init : list (Z * Z)) (inf : list (Z * Z * Q))
           (maxtime : Q) (monitor : option Q) (pf fuel : nat) (rs ls : list Q) (ds : list nat),
         wf_loci (vim_specs vm) = true ->
         graph_okb nodes edges = true ->
         init_ok (vi_cm vm) nodes init = true ->
         let st :=
           cw_st
             (vi_base
                (world
                   (r_final (dstoch_run (mk_vitable vm nodes edges init inf maxtime monitor) pf fuel rs ls ds))))
           in
         st_nodes st = nodes /\
         (forall v : Z, In v nodes -> exists c : Z, getc st v = Some c /\ In c (cm_comps (vi_cm vm))) /\
         NoDup (cm_comps (vi_cm vm)) /\
         CompartDiagram.lsum (map (count_in st) (cm_comps (vi_cm vm))) = length nodes.
Proof. exact CVI7_counts_stoch. Qed.

Theorem C07_vi_counts_sync :
  forall (vm : vimodel) (nodes : list Z) (edges init : list (Z * Z)) (inf : list (Z * Z * Q))
           (maxtime : Q) (monitor : option Q) (pf fuel : nat) (rs : list Q) (ds : list nat),
         wf_loci (vim_specs vm) = true ->
         graph_okb nodes edges = true ->
         init_ok (vi_cm vm) nodes init = true ->
         let st :=
           cw_st
             (vi_base
                (world (r_final (dsync_run (mk_vitable vm nodes edges init inf maxtime monitor) pf fuel rs ds))))
           in
         st_nodes st = nodes /\
         (forall v : Z, In v nodes -> exists c : Z, getc st v = Some c /\ In c (cm_comps (vi_cm vm))) /\
         NoDup (cm_comps (vi_cm vm)) /\
         CompartDiagram.lsum (map (count_in st) (cm_comps (vi_cm vm))) = length nodes.
Proof. exact CVI7_counts_sync. Qed.

Theorem C07_vi_posted_removal_diagram :
  forall (p T : Q) (nodes : list Z) (edges init : list (Z * Z)) (inf : list (Z * Z * Q)) 
           (maxtime : Q) (monitor : option Q) (Xtr : trans viworld -> Prop) (rs ls : list Q) 
           (ds : list nat) (cs : list (st viworld * dcall)) (s : st viworld),
         let D := mk_vitable (sir_vi_gen p (Some T)) nodes edges init inf maxtime monitor in
         graph_okb nodes edges = true ->
         init_ok (vi_cm (sir_vi_gen p (Some T))) nodes init = true ->
         DSteps D Xtr (setup_state (d_tb D) rs ls ds) cs s ->
         forall (s1 : st viworld) (c : dcall),
         In (s1, c) cs ->
         forall v : Z,
         getc (cw_st (vi_base (world (dafter D c s1)))) v <> getc (cw_st (vi_base (world s1))) v ->
         exists l c' : Z,
           getc (cw_st (vi_base (world s1))) v = Some l /\
           getc (cw_st (vi_base (world (dafter D c s1)))) v = Some c' /\ In (l, c') [(1%Z, 2%Z); (3%Z, 1%Z)].
Proof. exact CVI7_posted_removal_diagram. Qed.

Theorem C07_vi_posted_removal_inv :
  forall (p T : Q) (nodes : list Z) (edges init : list (Z * Z)) (inf : list (Z * Z * Q)) 
           (maxtime : Q) (monitor : option Q) (Xtr : trans viworld -> Prop) (rs ls : list Q) 
           (ds : list nat) (cs : list (st viworld * dcall)) (s : st viworld),
         let D := mk_vitable (sir_vi_gen p (Some T)) nodes edges init inf maxtime monitor in
         graph_okb nodes edges = true ->
         init_ok (vi_cm (sir_vi_gen p (Some T))) nodes init = true ->
         DSteps D Xtr (setup_state (d_tb D) rs ls ds) cs s ->
         JP p T nodes edges init s /\
         Forall (fun sc : st viworld * dcall => JP p T nodes edges init (fst sc)) cs.
Proof. exact CVI7_posted_removal_inv. Qed.

Example C07_vi_example_quiescent :
  let D :=
           mk_vitable (sir_vi 1) [0%Z; 1%Z] [(0%Z, 1%Z)] [(0%Z, 1%Z); (1%Z, 3%Z)]
             (initial_infectivities [(0%Z, 1%Z)] [0]) 3 None in
         let r := dstoch_run D 50 50 [1 # 2; 1 # 2; 1 # 2] [1; 1] [0%nat] in
         r_stuck r = false /\
         r_time r = 1 /\
         r_events r = 1%nat /\
         loci (r_final r) = [[]; []] /\
         map (getc (cw_st (vi_base (world (r_final r))))) [0%Z; 1%Z] = [Some 2%Z; Some 3%Z] /\
         Qeq_bool (dsum_rates (r_final r) (dtransitions D (loci (r_final r)) (world (r_final r)))) 0 = true /\
         vi_nonneg (sir_vi 1) (world (r_final r)).
Proof. exact CVI7_example_quiescent. Qed.

