From EpyV Require Import Model.Kernel.
