(* C03 - placeholder statements are added by Proofs/Kernel*.v; see below. *)
From EpyV Require Import Model.Kernel.
