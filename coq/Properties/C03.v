(* C03 - simulation time never runs backwards and all clocks agree (Model/Kernel.v: both scheduler
   loops over arbitrary user programs).  Statements only; the proofs are in Proofs/Kernel*.v.

   Vocabulary (defined in Proofs/KernelTime.v, Proofs/KernelBase.v):
     ht o            the OHandler / OTap records of an output, in order
     paired_fwd l    l is handler, tap, handler, tap, ... where every pair has the shape
                       OHandler k t t e m :: OTap t p name e
                     (handler argument = clock read inside the handler = tap time, same element;
                     name is NPost k when m = None (posted event) and NEv p j otherwise)
     obs_times o     the times of the OHandler / OTap records, in order
     ntaps, nhandlers  numbers of OTap / OHandler records
     hrec x          OHandler (e_prog x) (e_time x) (e_time x) (e_elem x) None
     stoch_fired / sync_fired   the queue entries popped and fired during the run, in order
     nonneg_tb tb    every event probability / rate ev_p of the table is >= 0
   Hypotheses: only nonneg_tb and "every oracle value ln(1/r1) is >= 0", and only where needed. *)
From Coq Require Import List ZArith QArith Qabs Bool Arith Lia Lqa Sorted.
From EpyV Require Import Model.Kernel Proofs.KernelBase Proofs.KernelLoops Proofs.KernelQueue
  Proofs.KernelFire Proofs.KernelTime Proofs.KernelResults Proofs.KernelExample.
Import ListNotations.
Open Scope Q_scope.

(* ---- C03_agree: one tap per executed event, carrying the handler's time and element; the time
   passed to the handler is the clock the handler reads.  No hypothesis, also for stuck runs. *)
Theorem C03_agree_stoch : forall W (tb : table W) pf fuel rs ls ds,
  paired_fwd (ht (r_out (stoch_run tb pf fuel rs ls ds))).
Proof.
  intros. rewrite (proj1 (stoch_fields tb pf fuel rs ls ds)). unfold ht. rewrite filter_rev'.
  apply paired_rev. exact (proj1 (stoch_count tb pf fuel rs ls ds)).
Qed.

Theorem C03_agree_sync : forall W (tb : table W) pf fuel rs ds,
  paired_fwd (ht (r_out (sync_run tb pf fuel rs ds))).
Proof.
  intros. rewrite (proj1 (sync_fields tb pf fuel rs ds)). unfold ht. rewrite filter_rev'.
  apply paired_rev. exact (proj1 (sync_count tb pf fuel rs ds)).
Qed.

Theorem C03_handler_clock_stoch : forall W (tb : table W) pf fuel rs ls ds k targ clk e m,
  In (OHandler k targ clk e m) (r_out (stoch_run tb pf fuel rs ls ds)) -> targ = clk /\ targ == clk.
Proof.
  intros W tb pf fuel rs ls ds k targ clk e m H.
  assert (E : targ = clk); [|split; [exact E|rewrite E; reflexivity]].
  exact (paired_fwd_handler _ k targ clk e m (C03_agree_stoch W tb pf fuel rs ls ds) (in_ht _ _ H eq_refl)).
Qed.

Theorem C03_handler_clock_sync : forall W (tb : table W) pf fuel rs ds k targ clk e m,
  In (OHandler k targ clk e m) (r_out (sync_run tb pf fuel rs ds)) -> targ = clk /\ targ == clk.
Proof.
  intros W tb pf fuel rs ds k targ clk e m H.
  assert (E : targ = clk); [|split; [exact E|rewrite E; reflexivity]].
  exact (paired_fwd_handler _ k targ clk e m (C03_agree_sync W tb pf fuel rs ds) (in_ht _ _ H eq_refl)).
Qed.

(* ---- C03_count: EVENTS = number of taps = number of handler calls.  No hypothesis. *)
Theorem C03_count_stoch : forall W (tb : table W) pf fuel rs ls ds,
  let r := stoch_run tb pf fuel rs ls ds in
  r_events r = ntaps (r_out r) /\ ntaps (r_out r) = nhandlers (r_out r).
Proof.
  intros W tb pf fuel rs ls ds. cbv zeta. rewrite (proj1 (stoch_fields tb pf fuel rs ls ds)), ntaps_rev, nhandlers_rev.
  destruct (stoch_count tb pf fuel rs ls ds) as [P C]. split; [exact C|exact (paired_nhandlers _ P)].
Qed.

Theorem C03_count_sync : forall W (tb : table W) pf fuel rs ds,
  let r := sync_run tb pf fuel rs ds in
  r_events r = ntaps (r_out r) /\ ntaps (r_out r) = nhandlers (r_out r).
Proof.
  intros W tb pf fuel rs ds. cbv zeta. rewrite (proj1 (sync_fields tb pf fuel rs ds)), ntaps_rev, nhandlers_rev.
  destruct (sync_count tb pf fuel rs ds) as [P C]. split; [exact C|exact (paired_nhandlers _ P)].
Qed.

(* ---- C03_monotone: handler and tap times never decrease (in a run that did not exhaust its
   fuel or oracle: once stuck the model keeps looping on default values) *)
Theorem C03_monotone_stoch : forall W (tb : table W) pf fuel rs ls ds,
  nonneg_tb tb -> Forall (Qle 0) ls ->
  let r := stoch_run tb pf fuel rs ls ds in
  r_stuck r = false ->
  StronglySorted Qle (obs_times (r_out r)) /\
  StronglySorted Qle (map time_of (filter is_handler (r_out r))) /\
  StronglySorted Qle (map time_of (filter is_tap (r_out r))).
Proof.
  intros W tb pf fuel rs ls ds Hnn Hl. cbv zeta. intros Hs.
  assert (H : StronglySorted Qle (obs_times (r_out (stoch_run tb pf fuel rs ls ds)))).
  { rewrite (proj1 (stoch_fields tb pf fuel rs ls ds)), obs_times_rev.
    exact (proj1 (desc_rev _ _ (t_desc _ _ _ _ (stoch_tinv tb pf fuel rs ls ds Hnn Hl Hs)))). }
  split; [exact H|exact (handler_times_sorted _ H)].
Qed.

Theorem C03_monotone_sync : forall W (tb : table W) pf fuel rs ds,
  let r := sync_run tb pf fuel rs ds in
  r_stuck r = false ->
  StronglySorted Qle (obs_times (r_out r)) /\
  StronglySorted Qle (map time_of (filter is_handler (r_out r))) /\
  StronglySorted Qle (map time_of (filter is_tap (r_out r))).
Proof.
  intros W tb pf fuel rs ds. cbv zeta. intros Hs.
  assert (H : StronglySorted Qle (obs_times (r_out (sync_run tb pf fuel rs ds)))).
  { rewrite (proj1 (sync_fields tb pf fuel rs ds)), obs_times_rev.
    destruct (sync_tinv tb pf fuel rs ds Hs) as [L [_ T]].
    exact (proj1 (desc_rev _ _ (t_desc _ _ _ _ T))). }
  split; [exact H|exact (handler_times_sorted _ H)].
Qed.

(* ---- C03_end: no event later than the reported end time *)
Theorem C03_end_stoch : forall W (tb : table W) pf fuel rs ls ds,
  nonneg_tb tb -> Forall (Qle 0) ls ->
  let r := stoch_run tb pf fuel rs ls ds in
  r_stuck r = false -> Forall (fun t => t <= r_time r) (obs_times (r_out r)).
Proof.
  intros W tb pf fuel rs ls ds Hnn Hl. cbv zeta. intros Hs.
  rewrite (proj1 (stoch_fields tb pf fuel rs ls ds)), obs_times_rev. apply Forall_rev'.
  exact (proj2 (desc_rev _ _ (t_desc _ _ _ _ (stoch_tinv tb pf fuel rs ls ds Hnn Hl Hs)))).
Qed.

(* synchronous: TIME is 1 + the number m of steps executed; steps 1 .. m were all before the
   maximum time; the loop stopped because the maximum time was reached or the process' own
   equilibrium test held; every event happened by step m = TIME - 1 *)
Theorem C03_end_sync : forall W (tb : table W) pf fuel rs ds,
  let r := sync_run tb pf fuel rs ds in
  r_stuck r = false ->
  Forall (fun t => t + 1 <= r_time r) (obs_times (r_out r)) /\
  exists m : nat, r_time r == 1 + inject_Z (Z.of_nat m) /\
    (t_maxtime tb <= r_time r \/ t_equil tb (loci (r_final r)) (world (r_final r)) = true) /\
    (forall j : nat, (j < m)%nat -> 1 + inject_Z (Z.of_nat j) < t_maxtime tb).
Proof.
  intros W tb pf fuel rs ds. cbv zeta. intros Hs. split.
  - rewrite (proj1 (sync_fields tb pf fuel rs ds)), obs_times_rev. apply Forall_rev'.
    destruct (sync_tinv tb pf fuel rs ds Hs) as [L [HL T]].
    eapply Forall_impl; [|exact (proj2 (desc_rev _ _ (t_desc _ _ _ _ T)))]. cbn. intros a Ha. rewrite <- HL. lra.
  - destruct (sync_time tb pf fuel rs ds) as [m [_ [Ht [He Hj]]]]. exists m. split; [exact Ht|split].
    + specialize (He Hs). unfold at_end in He. apply orb_true_iff in He.
      destruct He as [He|He]; [left; apply Qle_bool_iff, He|right; exact He].
    + intros j Hlt. apply Qle_bool_false. apply Hj, Hlt.
Qed.

(* ---- posted events: the handler records with member None are exactly, in order, those of the
   queue entries fired, each with the entry's own time as argument and as clock; and an entry's
   time is the time that was given to postEvent (the OPosted record the user saw) *)
Theorem C03_posted_stoch : forall W (tb : table W) pf fuel rs ls ds,
  let r := stoch_run tb pf fuel rs ls ds in
  filter is_ph (r_out r) = map hrec (stoch_fired tb pf fuel rs ls ds) /\
  forall i tt x, In (OPosted i tt) (r_out r) -> In x (stoch_fired tb pf fuel rs ls ds) -> e_id x = i ->
    e_time x = tt /\ In (OHandler (e_prog x) tt tt (e_elem x) None) (r_out r).
Proof.
  intros W tb pf fuel rs ls ds. cbv zeta.
  pose proof (stoch_run_ginv tb pf fuel rs ls ds) as G. rewrite (proj1 (stoch_fields tb pf fuel rs ls ds)).
  split; [exact (ph_rev _ _ (g_hrec _ _ _ _ _ G))|]. intros i tt x. exact (ginv_posted_fired _ _ i tt x G).
Qed.

Theorem C03_posted_sync : forall W (tb : table W) pf fuel rs ds,
  let r := sync_run tb pf fuel rs ds in
  filter is_ph (r_out r) = map hrec (sync_fired tb pf fuel rs ds) /\
  forall i tt x, In (OPosted i tt) (r_out r) -> In x (sync_fired tb pf fuel rs ds) -> e_id x = i ->
    e_time x = tt /\ In (OHandler (e_prog x) tt tt (e_elem x) None) (r_out r).
Proof.
  intros W tb pf fuel rs ds. cbv zeta.
  pose proof (sync_run_ginv tb pf fuel rs ds) as G. rewrite (proj1 (sync_fields tb pf fuel rs ds)).
  split; [exact (ph_rev _ _ (g_hrec _ _ _ _ _ G))|]. intros i tt x. exact (ginv_posted_fired _ _ i tt x G).
Qed.

(* ------------------------------------------------------------------ non-vacuity *)
(* Proofs/KernelExample.v: a table with a repeating event, a handler that posts a nested earlier
   event, an un-post, a rejected post into the past and a per-element stochastic event.  The
   premises hold, the run is not stuck, and the trace has 9 events under stochastic dynamics
   (7 posted ones: 1/2, 3/2, 2, the nested 9/4, the tie 5/2 5/2, 7/2) and 5 under synchronous. *)
Example C03_example_stoch :
  nonneg_tb ex_tb /\ Forall (Qle 0) ex_lns /\
  let r := stoch_run ex_tb 50 50 ex_rands ex_lns ex_draws in
  r_stuck r = false /\ r_time r = 4 /\ r_events r = 9%nat /\
  r_out r =
    [OPostedRep (1 # 2); OPosted 1 2; OPosted 2 (5 # 2); OPosted 3 (7 # 4);
     OUnpost 3 (Some (Some (7 # 4))); OQuery 3 None; OUnpost 3 (Some None); OUnpost 3 None; OValueError;
     OHandler 0 (1 # 2) (1 # 2) (EN 0) None; OObserve (1 # 2) [2%nat]; OTap (1 # 2) 0 (NPost 0) (EN 0);
     OHandler 2 1 1 (EN 0) (Some true); OTap 1 0 (NEv 0 0) (EN 0);
     OHandler 0 (3 # 2) (3 # 2) (EN 0) None; OObserve (3 # 2) [1%nat]; OTap (3 # 2) 0 (NPost 0) (EN 0);
     OHandler 1 2 2 (EN 0) None; OPosted 6 (9 # 4); OQuery 1 None; OTap 2 0 (NPost 1) (EN 0);
     OHandler 3 (9 # 4) (9 # 4) (EN 0) None; OTap (9 # 4) 0 (NPost 3) (EN 0);
     OHandler 3 (5 # 2) (5 # 2) (EN 0) None; OTap (5 # 2) 0 (NPost 3) (EN 0);
     OHandler 0 (5 # 2) (5 # 2) (EN 0) None; OObserve (5 # 2) [1%nat]; OTap (5 # 2) 0 (NPost 0) (EN 0);
     OHandler 0 (7 # 2) (7 # 2) (EN 0) None; OObserve (7 # 2) [1%nat]; OTap (7 # 2) 0 (NPost 0) (EN 0);
     OHandler 2 4 4 (EN 1) (Some true); OTap 4 0 (NEv 0 0) (EN 1)].
Proof.
  split; [|split].
  - repeat constructor. unfold Qle. cbn. lia.
  - repeat constructor; unfold Qle; cbn; lia.
  - cbv zeta. repeat split; vm_compute; reflexivity.
Qed.

Example C03_example_sync :
  let r := sync_run ex_tb 50 50 ex_sync_rands ex_draws in
  r_stuck r = false /\ r_time r = 3 /\ r_events r = 5%nat /\ r_steps r = 2%nat /\
  r_out r =
    [OPostedRep (1 # 2); OPosted 1 2; OPosted 2 (5 # 2); OPosted 3 (7 # 4);
     OUnpost 3 (Some (Some (7 # 4))); OQuery 3 None; OUnpost 3 (Some None); OUnpost 3 None; OValueError;
     OHandler 0 (1 # 2) (1 # 2) (EN 0) None; OObserve (1 # 2) [2%nat]; OTap (1 # 2) 0 (NPost 0) (EN 0);
     OHandler 2 1 1 (EN 0) (Some true); OTap 1 0 (NEv 0 0) (EN 0);
     OHandler 0 (3 # 2) (3 # 2) (EN 0) None; OObserve (3 # 2) [1%nat]; OTap (3 # 2) 0 (NPost 0) (EN 0);
     OHandler 1 2 2 (EN 0) None; OPosted 6 (9 # 4); OQuery 1 None; OTap 2 0 (NPost 1) (EN 0);
     OHandler 2 2 2 (EN 1) (Some true); OTap 2 0 (NEv 0 0) (EN 1)].
Proof. cbv zeta. repeat split; vm_compute; reflexivity. Qed.
