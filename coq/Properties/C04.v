(* C04 - posted events fire exactly once, at their time, in posting order on ties (the posted-event
   queue of Model/Kernel.v against its abstract reading: the LIVE entries ordered by (time, id)).
   Statements only; the proofs are in Proofs/Kernel*.v.  Everything is for every user-state type W,
   every table (arbitrary handler programs that post / un-post / query / change loci), every
   oracle and every fuel.

   Vocabulary:
     wf s               ids in the queue are pairwise distinct and < nextid s (holds after set-up and
                        is preserved by every operation, C04_wf_action etc.)
     before a b         the heap order: earlier time, or equal time (==) and smaller id
     dead x / unposted x   x with e_live := false / the record OUnpost (e_id x) (Some (Some (e_time x)))
     gone_st i s        id i was allocated (< nextid) and no live entry carries it
     the_id k s         ids[k mod |ids|], the id an AUnpost k / AQuery k addresses
     pending_fired tb fuel t n s   the entries popped and fired by run_pending tb fuel t n s, in order
     stoch_fired / sync_fired      the same for a whole run
     hrec x             OHandler (e_prog x) (e_time x) (e_time x) (e_elem x) None: what firing x records
     succ_of x ddt y    y = the entry a repeating x posts when it fires: time Qred (e_time x + ddt),
                        same process, element, program and period
     absq q             the abstract queue: the live entries of q sorted by [before] (Proofs/KernelAbs.v) *)
From Coq Require Import List ZArith QArith Qabs Bool Arith Lia Lqa Sorted.
From EpyV Require Import Model.Kernel Proofs.KernelBase Proofs.KernelLoops Proofs.KernelQueue
  Proofs.KernelFire Proofs.KernelTime Proofs.KernelResults Proofs.KernelAbs Proofs.KernelExample.
Import ListNotations.
Open Scope Q_scope.

(* ------------------------------------------------------------------ post *)
Theorem C04_past_rejected : forall W (s : st W) t p e prog rep,
  Qltb t (clock s) = true -> post t p e prog rep s = (None, s).
Proof. intros W s t p e prog rep. exact (post_rejected t p e prog rep s). Qed.

Theorem C04_post_accepted : forall W (s : st W) t p e prog rep,
  Qltb t (clock s) = false ->
  exists s', post t p e prog rep s = (Some (nextid s), s') /\
    queue s' = mk_entry t (nextid s) p e prog rep :: queue s /\ nextid s' = S (nextid s) /\
    clock s' = clock s /\ out s' = out s.
Proof. intros W s t p e prog rep. exact (post_accepted t p e prog rep s). Qed.

(* ------------------------------------------------------------------ well-formedness is invariant *)
Theorem C04_wf_action : forall W (s : st W) p t e a, wf s -> wf (do_action p t e a s).
Proof. intros W s p t e a. exact (do_action_wf p t e a s). Qed.

Theorem C04_wf_run_pending : forall W (tb : table W) fuel t n s n' s',
  wf s -> run_pending tb fuel t n s = (n', s') -> wf s'.
Proof. intros W tb fuel t n s n' s' Hw H. exact (run_pendingL_wf tb fuel t n s n' s' _ Hw (run_pending_L _ _ _ _ _ _ _ H)). Qed.

Theorem C04_wf_runs : forall W (tb : table W) pf fuel rs ls ds,
  wf (r_final (stoch_run tb pf fuel rs ls ds)) /\ wf (r_final (sync_run tb pf fuel rs ds)).
Proof.
  intros. split; [exact (g_wf _ _ _ _ _ (stoch_run_ginv tb pf fuel rs ls ds))|exact (g_wf _ _ _ _ _ (sync_run_ginv tb pf fuel rs ds))].
Qed.

(* ------------------------------------------------------------------ the head is the least live entry *)
(* after _discardUnpostedEvents the head of the heap is the minimum LIVE entry under (time, id);
   lazily deleted entries are invisible *)
Theorem C04_head_is_min_live : forall W (s : st W), wf s ->
  match head (queue (discard s)) with
  | None => forall x, In x (queue s) -> e_live x = false
  | Some h => In h (queue s) /\ e_live h = true /\
              forall x, In x (queue s) -> e_live x = true -> x = h \/ before h x = true
  end.
Proof. intros W s. exact (discard_head_min_live s). Qed.

Theorem C04_next_pending_time : forall W (s : st W), wf s ->
  match fst (next_pending_time s) with
  | None => forall x, In x (queue s) -> e_live x = false
  | Some t => exists h, t = e_time h /\ In h (queue s) /\ e_live h = true /\
              forall x, In x (queue s) -> e_live x = true -> x = h \/ before h x = true
  end.
Proof. intros W s. exact (next_pending_time_spec s). Qed.

(* ------------------------------------------------------------------ un-post and query *)
(* un-posting a pending id returns exactly its time, lazily deletes it, and the id is gone *)
Theorem C04_unpost_live : forall W (s : st W) p t e k fatal x,
  wf s -> ids s <> [] -> find_live (the_id k s) (queue s) = Some x ->
  let s' := do_action p t e (AUnpost k fatal) s in
  s' = emit (OUnpost (the_id k s) (Some (Some (e_time x)))) (set_queue (kill (the_id k s) (queue s)) s) /\
  In x (queue s) /\ e_id x = the_id k s /\ e_live x = true /\
  gone_st (the_id k s) s'.
Proof.
  intros W s p t e k fatal x Hw Hi Hf. cbv zeta. rewrite (unpost_live p t e k fatal s x Hi Hf).
  split; [reflexivity|]. destruct (find_live_some _ _ _ Hf) as [A [B C]].
  split; [exact A|split; [exact B|split; [exact C|exact (unpost_makes_gone _ s x Hw Hf)]]].
Qed.

(* an id that has fired or has been un-posted: KeyError when fatal, None otherwise; asking for its
   time is a KeyError *)
Theorem C04_unpost_gone : forall W (s : st W) p t e k fatal,
  gone_st (the_id k s) s -> ids s <> [] ->
  do_action p t e (AUnpost k fatal) s = emit (OUnpost (the_id k s) (if fatal then None else Some None)) s.
Proof. intros W s p t e k fatal. exact (gone_unpost p t e k fatal s). Qed.

Theorem C04_query_gone : forall W (s : st W) p t e k,
  gone_st (the_id k s) s -> ids s <> [] ->
  do_action p t e (AQuery k) s = emit (OQuery (the_id k s) None) s.
Proof. intros W s p t e k. exact (gone_query p t e k s). Qed.

Theorem C04_query_pending : forall W (s : st W) p t e k, ids s <> [] ->
  do_action p t e (AQuery k) s = emit (OQuery (the_id k s) (option_map e_time (find_live (the_id k s) (queue s)))) s.
Proof. intros W s p t e k. exact (query_spec p t e k s). Qed.

(* gone is for ever: no action, no run_pending brings the id back, and it is never fired *)
Theorem C04_gone_forever_action : forall W (s : st W) i p t e a, gone_st i s -> gone_st i (do_action p t e a s).
Proof. intros W s i p t e a. exact (do_action_gone p t e a s i). Qed.

Theorem C04_gone_forever_pending : forall W (tb : table W) fuel t n s n' s' i,
  gone_st i s -> run_pending tb fuel t n s = (n', s') ->
  gone_st i s' /\ ~ In i (map e_id (pending_fired tb fuel t n s)).
Proof. intros W tb fuel t n s n' s' i G H. exact (run_pendingL_gone tb fuel t n s n' s' _ i G (run_pending_L _ _ _ _ _ _ _ H)). Qed.

(* every fired entry is gone afterwards *)
Theorem C04_fired_is_gone : forall W (tb : table W) fuel t n s n' s' x,
  wf s -> run_pending tb fuel t n s = (n', s') -> In x (pending_fired tb fuel t n s) -> gone_st (e_id x) s'.
Proof. intros W tb fuel t n s n' s' x Hw H. exact (run_pendingL_fired_gone tb fuel t n s n' s' _ x Hw (run_pending_L _ _ _ _ _ _ _ H)). Qed.

(* in a whole run: a successful un-post of i means i never fires and is gone at the end *)
Theorem C04_unposted_never_fires : forall W (tb : table W) pf fuel rs ls ds i r,
  (In (OUnpost i (Some (Some r))) (r_out (stoch_run tb pf fuel rs ls ds)) ->
     gone_st i (r_final (stoch_run tb pf fuel rs ls ds)) /\ ~ In i (map e_id (stoch_fired tb pf fuel rs ls ds))) /\
  (In (OUnpost i (Some (Some r))) (r_out (sync_run tb pf fuel rs ds)) ->
     gone_st i (r_final (sync_run tb pf fuel rs ds)) /\ ~ In i (map e_id (sync_fired tb pf fuel rs ds))).
Proof.
  intros W tb pf fuel rs ls ds i r. split.
  - rewrite (proj1 (stoch_fields tb pf fuel rs ls ds)). exact (ginv_unposted_rev _ _ i r (stoch_run_ginv tb pf fuel rs ls ds)).
  - rewrite (proj1 (sync_fields tb pf fuel rs ds)). exact (ginv_unposted_rev _ _ i r (sync_run_ginv tb pf fuel rs ds)).
Qed.

(* ... nor does a whole scheduler loop started from any state *)
Theorem C04_gone_forever_loops : forall W (tb : table W) pf fuel i,
  (forall t ev s t' ev' s', gone_st i s -> stoch_loop tb pf fuel t ev s = (t', ev', s') -> gone_st i s') /\
  (forall t ev k s t' ev' k' s', gone_st i s -> sync_loop tb pf fuel t ev k s = (t', ev', k', s') -> gone_st i s').
Proof.
  intros W tb pf fuel i. split.
  - intros t ev s t' ev' s'. exact (stoch_loop_gone tb pf fuel t ev s t' ev' s' i).
  - intros t ev k s t' ev' k' s'. exact (sync_loop_gone tb pf fuel t ev k s t' ev' k' s' i).
Qed.

(* the lazily deleted entries still in the heap at the end of a run are exactly ones the user un-posted *)
Theorem C04_dead_entries_were_unposted : forall W (tb : table W) pf fuel rs ls ds x,
  e_live x = false ->
  (In x (queue (r_final (stoch_run tb pf fuel rs ls ds))) -> In (unposted x) (r_out (stoch_run tb pf fuel rs ls ds))) /\
  (In x (queue (r_final (sync_run tb pf fuel rs ds))) -> In (unposted x) (r_out (sync_run tb pf fuel rs ds))).
Proof.
  intros W tb pf fuel rs ls ds x Hl. split; intros Hx.
  - exact (stoch_run_dinv tb pf fuel rs ls ds x Hx Hl).
  - exact (sync_run_dinv tb pf fuel rs ds x Hx Hl).
Qed.

(* ------------------------------------------------------------------ the fired entries and their records *)
(* what run_pending returns is the number of entries it fired; it fires only live entries due by
   the bound; the handler records it emits are exactly those of the fired entries, in order:
   each handler receives the entry's own time and element (C04_handler_args) *)
Theorem C04_handler_args : forall W (tb : table W) fuel t n s n' s',
  wf s -> run_pending tb fuel t n s = (n', s') ->
  let l := pending_fired tb fuel t n s in
  n' = (n + length l)%nat /\
  (forall x, In x l -> e_time x <= t /\ e_live x = true) /\
  exists d, out s' = d ++ out s /\ filter is_ph (rev d) = map hrec l.
Proof.
  intros W tb fuel t n s n' s' Hw H. cbv zeta. pose proof (run_pending_L _ _ _ _ _ _ _ H) as HL.
  split; [exact (run_pending_count tb fuel t n s n' s' H)|split].
  - exact (run_pendingL_fired_le tb fuel t n s n' s' _ HL).
  - exact (run_pendingL_records tb fuel t n s n' s' _ Hw HL).
Qed.

(* ------------------------------------------------------------------ order *)
(* the fired sequence is strictly increasing in (time, id): earlier time first, posting order on
   ties, also for entries posted from inside handlers for times preceding entries already queued *)
Theorem C04_order_run_pending : forall W (tb : table W) fuel t n s n' s',
  wf s -> run_pending tb fuel t n s = (n', s') ->
  StronglySorted (fun a b => before a b = true) (pending_fired tb fuel t n s).
Proof. intros W tb fuel t n s n' s' Hw H. exact (run_pendingL_order tb fuel t n s n' s' _ Hw (run_pending_L _ _ _ _ _ _ _ H)). Qed.

Theorem C04_order_stoch : forall W (tb : table W) pf fuel rs ls ds,
  nonneg_tb tb -> Forall (Qle 0) ls ->
  StronglySorted (fun a b => before a b = true) (stoch_fired tb pf fuel rs ls ds) /\
  filter is_ph (r_out (stoch_run tb pf fuel rs ls ds)) = map hrec (stoch_fired tb pf fuel rs ls ds).
Proof.
  intros W tb pf fuel rs ls ds Hnn Hl. split.
  - exact (o_sorted _ _ _ _ (proj1 (stoch_ord tb pf fuel rs ls ds Hnn Hl))).
  - rewrite (proj1 (stoch_fields tb pf fuel rs ls ds)). exact (ph_rev _ _ (g_hrec _ _ _ _ _ (stoch_run_ginv tb pf fuel rs ls ds))).
Qed.

Theorem C04_order_sync : forall W (tb : table W) pf fuel rs ds,
  StronglySorted (fun a b => before a b = true) (sync_fired tb pf fuel rs ds) /\
  filter is_ph (r_out (sync_run tb pf fuel rs ds)) = map hrec (sync_fired tb pf fuel rs ds).
Proof.
  intros W tb pf fuel rs ds. split.
  - exact (o_sorted _ _ _ _ (proj1 (sync_ord tb pf fuel rs ds))).
  - rewrite (proj1 (sync_fields tb pf fuel rs ds)). exact (ph_rev _ _ (g_hrec _ _ _ _ _ (sync_run_ginv tb pf fuel rs ds))).
Qed.

(* ------------------------------------------------------------------ exactly once *)
(* a pending entry due by the bound of a run_pending that does not run out of fuel, and that no
   handler un-posts, fires: once (no id occurs twice among the fired), with its own time and element *)
Theorem C04_exactly_once : forall W (tb : table W) fuel t n s n' s' y,
  wf s -> run_pending tb fuel t n s = (n', s') -> stuck s' = false ->
  In y (queue s) -> e_live y = true -> e_time y <= t -> ~ In (unposted y) (out s') ->
  In y (pending_fired tb fuel t n s) /\ NoDup (map e_id (pending_fired tb fuel t n s)) /\
  In (OHandler (e_prog y) (e_time y) (e_time y) (e_elem y) None) (out s').
Proof.
  intros W tb fuel t n s n' s' y Hw H.
  exact (run_pendingL_exactly_once tb fuel t n s n' s' _ y Hw (run_pending_L _ _ _ _ _ _ _ H)).
Qed.

(* whatever happens (fuel or not), a pending entry has fired, or is still queued, or was un-posted;
   and when the call does not run out of fuel nothing due by the bound is left, nested posts included *)
Theorem C04_conservation : forall W (tb : table W) fuel t n s n' s',
  wf s -> run_pending tb fuel t n s = (n', s') ->
  (forall y, In y (queue s) -> e_live y = true ->
     In y (pending_fired tb fuel t n s) \/ In y (queue s') \/ In (unposted y) (out s')) /\
  (stuck s' = false -> forall x, In x (queue s') -> e_live x = true -> t < e_time x).
Proof.
  intros W tb fuel t n s n' s' Hw H. pose proof (run_pending_L _ _ _ _ _ _ _ H) as HL. split.
  - intros y. exact (run_pendingL_cons tb fuel t n s n' s' _ y Hw HL).
  - exact (run_pendingL_not_stuck tb fuel t n s n' s' _ HL).
Qed.

(* no entry fires twice in a run, ever *)
Theorem C04_never_twice : forall W (tb : table W) pf fuel rs ls ds,
  NoDup (map e_id (stoch_fired tb pf fuel rs ls ds)) /\ NoDup (map e_id (sync_fired tb pf fuel rs ds)).
Proof.
  intros. split; [exact (g_nodup _ _ _ _ _ (stoch_run_ginv tb pf fuel rs ls ds))|exact (g_nodup _ _ _ _ _ (sync_run_ginv tb pf fuel rs ds))].
Qed.

(* the fate of every id handed to user code in a run: the entry it names carries the time the user
   posted it for, and it has fired, or was un-posted (the user got that time back), or is still queued *)
Theorem C04_posted_fate_stoch : forall W (tb : table W) pf fuel rs ls ds i tt,
  let r := stoch_run tb pf fuel rs ls ds in
  In (OPosted i tt) (r_out r) ->
  exists x, e_id x = i /\ e_time x = tt /\ e_live x = true /\
    (In x (stoch_fired tb pf fuel rs ls ds) \/ In (OUnpost i (Some (Some tt))) (r_out r) \/ In x (queue (r_final r))).
Proof.
  intros W tb pf fuel rs ls ds i tt. cbv zeta. rewrite (proj1 (stoch_fields tb pf fuel rs ls ds)).
  exact (ginv_posted_rev _ _ i tt (stoch_run_ginv tb pf fuel rs ls ds)).
Qed.

Theorem C04_posted_fate_sync : forall W (tb : table W) pf fuel rs ds i tt,
  let r := sync_run tb pf fuel rs ds in
  In (OPosted i tt) (r_out r) ->
  exists x, e_id x = i /\ e_time x = tt /\ e_live x = true /\
    (In x (sync_fired tb pf fuel rs ds) \/ In (OUnpost i (Some (Some tt))) (r_out r) \/ In x (queue (r_final r))).
Proof.
  intros W tb pf fuel rs ds i tt. cbv zeta. rewrite (proj1 (sync_fields tb pf fuel rs ds)).
  exact (ginv_posted_rev _ _ i tt (sync_run_ginv tb pf fuel rs ds)).
Qed.

(* ------------------------------------------------------------------ repeating events *)
(* each firing of a repeating entry (period ddt >= 0) posts its successor at e_time + ddt with the
   same program, element and process; the successor then fires, stays queued or is un-posted *)
Theorem C04_repeating_step : forall W (tb : table W) fuel t n s n' s' x ddt,
  wf s -> run_pending tb fuel t n s = (n', s') ->
  In x (pending_fired tb fuel t n s) -> e_rep x = Some ddt -> 0 <= ddt ->
  exists y, succ_of x ddt y /\
    (In y (pending_fired tb fuel t n s) \/ In y (queue s') \/ In (unposted y) (out s')).
Proof.
  intros W tb fuel t n s n' s' x ddt Hw H.
  exact (run_pendingL_rep_step tb fuel t n s n' s' _ x ddt Hw (run_pending_L _ _ _ _ _ _ _ H)).
Qed.

(* hence it fires at t0, t0 + ddt, t0 + 2 ddt, ... as far as the bound reaches *)
Theorem C04_repeating : forall W (tb : table W) fuel t n s n' s' x ddt,
  wf s -> run_pending tb fuel t n s = (n', s') -> stuck s' = false ->
  (forall i r, ~ In (OUnpost i (Some (Some r))) (out s')) ->
  In x (pending_fired tb fuel t n s) -> e_rep x = Some ddt -> 0 <= ddt ->
  forall k : nat, e_time x + inject_Z (Z.of_nat k) * ddt <= t ->
  exists y, In y (pending_fired tb fuel t n s) /\ e_time y == e_time x + inject_Z (Z.of_nat k) * ddt /\
            e_prog y = e_prog x /\ e_elem y = e_elem x /\ e_proc y = e_proc x /\ e_rep y = Some ddt.
Proof.
  intros W tb fuel t n s n' s' x ddt Hw H.
  exact (run_pendingL_rep_chain tb fuel t n s n' s' _ x ddt Hw (run_pending_L _ _ _ _ _ _ _ H)).
Qed.

Theorem C04_repeating_runs : forall W (tb : table W) pf fuel rs ls ds x ddt,
  e_rep x = Some ddt -> 0 <= ddt ->
  (In x (stoch_fired tb pf fuel rs ls ds) ->
     exists y, succ_of x ddt y /\
       (In y (stoch_fired tb pf fuel rs ls ds) \/ In y (queue (r_final (stoch_run tb pf fuel rs ls ds))) \/
        In (unposted y) (r_out (stoch_run tb pf fuel rs ls ds)))) /\
  (In x (sync_fired tb pf fuel rs ds) ->
     exists y, succ_of x ddt y /\
       (In y (sync_fired tb pf fuel rs ds) \/ In y (queue (r_final (sync_run tb pf fuel rs ds))) \/
        In (unposted y) (r_out (sync_run tb pf fuel rs ds)))).
Proof.
  intros W tb pf fuel rs ls ds x ddt Hr Hd. split; intros Hx.
  - rewrite (proj1 (stoch_fields tb pf fuel rs ls ds)). exact (ginv_rep_rev _ _ x ddt (stoch_run_ginv tb pf fuel rs ls ds) Hx Hr Hd).
  - rewrite (proj1 (sync_fields tb pf fuel rs ds)). exact (ginv_rep_rev _ _ x ddt (sync_run_ginv tb pf fuel rs ds) Hx Hr Hd).
Qed.

(* ------------------------------------------------------------------ end of a run *)
(* when StochasticDynamics.do returns (not stuck), every posted event still pending is due at or
   after the reported end time: everything due strictly before it has fired or was un-posted *)
Theorem C04_stochastic_end : forall W (tb : table W) pf fuel rs ls ds,
  nonneg_tb tb -> Forall (Qle 0) ls ->
  let r := stoch_run tb pf fuel rs ls ds in
  r_stuck r = false -> forall x, In x (queue (r_final r)) -> e_live x = true -> r_time r <= e_time x.
Proof.
  intros W tb pf fuel rs ls ds Hnn Hl. cbv zeta. intros Hs.
  exact (t_live _ _ _ _ (stoch_tinv tb pf fuel rs ls ds Hnn Hl Hs)).
Qed.

(* synchronous: every pending event is due at or after the last executed step TIME - 1 *)
Theorem C04_synchronous_end : forall W (tb : table W) pf fuel rs ds,
  let r := sync_run tb pf fuel rs ds in
  r_stuck r = false -> forall x, In x (queue (r_final r)) -> e_live x = true -> r_time r <= e_time x + 1.
Proof.
  intros W tb pf fuel rs ds. cbv zeta. intros Hs x Hx Hl.
  destruct (sync_tinv tb pf fuel rs ds Hs) as [L [HL T]]. pose proof (t_live _ _ _ _ T x Hx Hl). rewrite <- HL. lra.
Qed.

(* ------------------------------------------------------------------ refinement to the abstract sorted queue *)
(* absq q: exactly the live entries of q, sorted by (time, id), strictly when ids are distinct *)
Theorem C04_abs_spec : forall q,
  (forall x, In x (absq q) <-> In x q /\ e_live x = true) /\
  StronglySorted (fun a b => before b a = false) (absq q) /\
  (NoDup (map e_id q) -> StronglySorted (fun a b => before a b = true) (absq q)).
Proof. intros q. split; [exact (absq_in q)|split; [exact (absq_asc q)|exact (absq_strict q)]]. Qed.

(* postEvent is sorted insertion *)
Theorem C04_refines_post : forall W (s : st W) t p e prog rep,
  Qltb t (clock s) = false ->
  absq (queue (snd (post t p e prog rep s))) = insert (mk_entry t (nextid s) p e prog rep) (absq (queue s)).
Proof. intros W s t p e prog rep H. unfold post. rewrite H. exact (absq_post (mk_entry t (nextid s) p e prog rep) (queue s) eq_refl). Qed.

(* unpostEvent deletes the id from the abstract queue (lazy deletion in the heap is invisible) *)
Theorem C04_refines_unpost : forall i q, absq (kill i q) = filter (id_not i) (absq q).
Proof. exact absq_kill. Qed.

(* _discardUnpostedEvents does not change the abstract queue *)
Theorem C04_refines_discard : forall W (s : st W), wf s -> absq (queue (discard s)) = absq (queue s).
Proof. intros W s Hw. exact (absq_discard _ (queue s) (proj1 Hw)). Qed.

(* the head of the heap after discarding is the head of the abstract queue, and popping it leaves the tail *)
Theorem C04_refines_head : forall W (s : st W), wf s -> head (queue (discard s)) = hd_error (absq (queue s)).
Proof. intros W s. exact (absq_head s). Qed.

Theorem C04_refines_pop : forall W (s : st W) h, wf s -> head (queue (discard s)) = Some h ->
  absq (remove_id (e_id h) (queue (discard s))) = tl (absq (queue s)).
Proof. intros W s h. exact (absq_pop s h). Qed.

(* ------------------------------------------------------------------ non-vacuity *)
(* Proofs/KernelExample.v.  After set-up the heap holds ids 0 (1/2, repeating), 1 (2), 2 (5/2) and the
   un-posted 3 (7/4, dead).  run_pending up to 5/2 fires six entries: the repeating one at 1/2 and 3/2,
   id 1 at 2 whose handler posts id 6 for 9/4 (before the queued 5/2), then 6, then the tie at 5/2 in
   posting order (id 2 before the third repetition id 5); the dead entry never fires; the successor
   7/2 stays queued. *)
Example C04_example_run_pending :
  let s := setup_state ex_tb [] [] [] in
  wf s /\
  map (fun x => (key x, e_live x)) (queue s) =
    [((7 # 4, 3%nat), false); ((5 # 2, 2%nat), true); ((2, 1%nat), true); ((1 # 2, 0%nat), true)] /\
  map key (absq (queue s)) = [(1 # 2, 0%nat); (2, 1%nat); (5 # 2, 2%nat)] /\
  option_map key (head (queue (discard s))) = Some (1 # 2, 0%nat) /\
  let '(n, s') := run_pending ex_tb 20 (5 # 2) 0 s in
  n = 6%nat /\ stuck s' = false /\
  map key (pending_fired ex_tb 20 (5 # 2) 0 s) =
    [(1 # 2, 0%nat); (3 # 2, 4%nat); (2, 1%nat); (9 # 4, 6%nat); (5 # 2, 2%nat); (5 # 2, 5%nat)] /\
  map (fun x => (key x, e_live x)) (queue s') = [((7 # 2, 7%nat), true)].
Proof.
  cbv zeta. vm_compute. split; [|repeat split].
  split; [repeat constructor; cbn; intuition discriminate|repeat constructor].
Qed.

(* whole runs on the same table (outputs in Properties/C03.v): the premises of the order theorems
   hold and the fired sequences are as expected; at the end of the stochastic run (TIME = 4) the
   only pending entry is due at 9/2 *)
Example C04_example_runs :
  nonneg_tb ex_tb /\ Forall (Qle 0) ex_lns /\
  r_stuck (stoch_run ex_tb 50 50 ex_rands ex_lns ex_draws) = false /\
  map key (stoch_fired ex_tb 50 50 ex_rands ex_lns ex_draws) =
    [(1 # 2, 0%nat); (3 # 2, 4%nat); (2, 1%nat); (9 # 4, 6%nat); (5 # 2, 2%nat); (5 # 2, 5%nat); (7 # 2, 7%nat)] /\
  map (fun x => (key x, e_live x)) (queue (r_final (stoch_run ex_tb 50 50 ex_rands ex_lns ex_draws))) =
    [((9 # 2, 8%nat), true)] /\
  r_stuck (sync_run ex_tb 50 50 ex_sync_rands ex_draws) = false /\
  map key (sync_fired ex_tb 50 50 ex_sync_rands ex_draws) = [(1 # 2, 0%nat); (3 # 2, 4%nat); (2, 1%nat)] /\
  map (fun x => (key x, e_live x)) (queue (r_final (sync_run ex_tb 50 50 ex_sync_rands ex_draws))) =
    [((9 # 4, 6%nat), true); ((5 # 2, 5%nat), true); ((5 # 2, 2%nat), true)].
Proof.
  split; [|split].
  - repeat constructor. unfold Qle. cbn. lia.
  - repeat constructor; unfold Qle; cbn; lia.
  - repeat split; vm_compute; reflexivity.
Qed.
