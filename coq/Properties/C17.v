(* C17 - degree-distribution generating functions match their distributions.  PARTIAL:
   theorems: the network clause (coefficients = degree fractions, gf(1) = 1, gf.dx()(1) = 2M/N) and
   the exact algebra of ContinuousGF's contour extraction over any field with a primitive m-th root
   of unity (aliasing identity, the no-alias case, getCoefficient / evaluate of a polynomial series,
   the step rule).  NOT theorems (checked numerically by harness/c17.py, see tools/claims.d/C17.json):
   that the alias tail a_(n+m) + a_(n+2m) + ... of the exp / polylog series is negligible, and the
   floating-point evaluation of those series by numpy / cmath / mpmath.
   Statements only; proofs are in Proofs/GFNet.v (standard library, over Q) and Proofs/Contour.v
   (MathComp; its statements are the [..._stmt] definitions there). *)
From Coq Require Import List ZArith QArith Bool Arith Lia.
From EpyV Require Import Lib.Prelude Model.GF Model.GFNet Proofs.GFSum Proofs.GFNet.
From EpyV Require Model.Contour Proofs.Contour Proofs.ContourExample.
Import ListNotations.
Open Scope Q_scope.

(* ---- networks *)

(* the i-th coefficient is the fraction of nodes of degree i (0 above the largest degree), for every i *)
Theorem C17_net_coeff : forall g f, gf_from_network g = Some f ->
  forall i, coeff f i == qn (count i (degrees g)) / qn (length (g_nodes g)).
Proof. exact net_coeff. Qed.

(* the only network without a generating function is the empty one (max() of an empty sequence) *)
Theorem C17_net_defined : forall g, gf_from_network g = None <-> g_nodes g = [].
Proof.
  intros g. unfold gf_from_network, net_coeffs, degrees. destruct (g_nodes g); simpl; split; intros H; try reflexivity; discriminate.
Qed.

(* gf(1) = 1: the fractions sum to one *)
Theorem C17_net_one : forall g f, gf_from_network g = Some f -> eval f 1 == 1.
Proof. exact net_one. Qed.

(* gf.dx()(1) = 2M/N, the mean degree (handshake lemma; a self-loop counts twice, as in networkx) *)
Theorem C17_net_mean : forall g f, graph_wf g -> gf_from_network g = Some f ->
  eval (deriv 1 f) 1 == qn (2 * length (g_edges g)) / qn (length (g_nodes g)).
Proof. exact net_mean. Qed.

Theorem C17_handshake : forall g, graph_wf g -> list_sum (degrees g) = (2 * length (g_edges g))%nat.
Proof. exact handshake. Qed.

(* ---- the contour extraction of ContinuousGF, exact algebra (MathComp) *)

(* mean over the m points r z^k of f(x)/x^n  =  sum of a_j r^(j-n) over j == n (mod m) *)
Theorem C17_contour_exact : Proofs.Contour.contour_exact_stmt.
Proof. exact Proofs.Contour.contour_exact_holds. Qed.

(* n < m and fewer than m + n coefficients: exactly a_n *)
Theorem C17_contour_no_alias : Proofs.Contour.contour_no_alias_stmt.
Proof. exact Proofs.Contour.contour_no_alias_holds. Qed.

(* getCoefficient(i) of an order-th derivative object is coefficient i of the order-th derivative,
   PROVIDED i + order < m: the code adapts m to i only, not to i + order *)
Theorem C17_contour_deriv : Proofs.Contour.contour_coeff_deriv_stmt.
Proof. exact Proofs.Contour.contour_coeff_deriv_holds. Qed.

(* evaluate(x0) of an order-th derivative object (m = 100) is the order-th derivative at x0 *)
Theorem C17_contour_value : Proofs.Contour.contour_value_deriv_stmt.
Proof. exact Proofs.Contour.contour_value_deriv_holds. Qed.

(* the step rule gives more points than the index: i < 100 * ceil((i + 1) / 99), and it is that ceiling *)
Theorem C17_step_rule : forall i, (i < contour_points i)%nat /\
  (99 * (contour_points i / 100) >= i + 1)%nat /\ (99 * (contour_points i / 100 - 1) < i + 1)%nat.
Proof. intros i. split; [apply contour_points_gt | apply contour_points_ceil]. Qed.

(* ---- non-vacuity *)

(* a triangle with a pendant node, a self-loop and an isolated node *)
Example C17_example :
  let g := {| g_nodes := [0; 1; 2; 3; 4]%Z; g_edges := [(0, 1); (1, 2); (2, 0); (2, 3); (3, 3)]%Z |} in
  graph_wf g /\ exists f, gf_from_network g = Some f /\
    list_eqb Qeq_bool (map (coeff f) [0; 1; 2; 3; 4]%nat) [1 # 5; 0; 2 # 5; 2 # 5; 0] = true /\
    eval f 1 == 1 /\ eval (deriv 1 f) 1 == 2 # 1.
Proof.
  cbv zeta. split.
  - split; [repeat constructor; simpl; intuition discriminate|].
    intros e He. simpl in He. repeat (destruct He as [<-|He]; [simpl; tauto|]). contradiction.
  - eexists. split; [reflexivity|]. split; [vm_compute; reflexivity|]. split; vm_compute; reflexivity.
Qed.

(* the hypotheses of the contour theorems hold in the algebraic numbers with the code's m = 100 *)
Example C17_contour_example : Proofs.ContourExample.contour_example_stmt.
Proof. exact Proofs.ContourExample.contour_example_holds. Qed.
