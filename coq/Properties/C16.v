(* C16 - generating-function algebra agrees with exact polynomial arithmetic.
   Statements only; every proof is a lemma of Proofs/GF*.v.
   [coeff g i] is gf[i], [eval g x] is gf(x) (the 301-term loop at the leaves), [deriv k g] is
   gf.dx(k), [scale]/[gadd]/[gsub]/[gmul]/[gdiv]/... the operator layer, [build e] the object a
   program over the operators constructs.  All equalities are == on Q (what Fraction's == is).
   [sumn n f] = f 0 + ... + f (n-1)  (Proofs/GFSum.v). *)
From Coq Require Import List ZArith QArith Bool Arith Lia.
From EpyV Require Import Lib.Prelude Model.GF Proofs.GFSum Proofs.GFCoeff Proofs.GFDeriv Proofs.GFEval.
Import ListNotations.
Open Scope Q_scope.

(* ---- coefficients, all trees *)

Theorem C16_sum : forall a b i, coeff (Sum a b) i == coeff a i + coeff b i.
Proof. intros. reflexivity. Qed.

(* ProductGF's forwards/backwards enumeration of index pairs is the Cauchy product *)
Theorem C16_prod_cauchy : forall a b i,
  coeff (Prod a b) i == sumn (S i) (fun j => coeff a j * coeff b (i - j)%nat).
Proof. exact coeff_Prod. Qed.

Theorem C16_scale : forall n g i, coeff (scale n g) i == n * coeff g i.
Proof. exact coeff_scale. Qed.

(* the operators with number operands: a number is the constant polynomial *)
Theorem C16_add_num : forall f n i, coeff (gadd_num f n) i == coeff f i + (if (i =? 0)%nat then n else 0).
Proof. exact coeff_gadd_num. Qed.

Theorem C16_sub : forall f g n i,
  coeff (gsub f g) i == coeff f i - coeff g i /\
  coeff (gsub_num f n) i == coeff f i - (if (i =? 0)%nat then n else 0).
Proof. intros. split; [apply coeff_gsub | apply coeff_gsub_num]. Qed.

Theorem C16_mul : forall f g n i,
  coeff (gmul f g) i == sumn (S i) (fun j => coeff f j * coeff g (i - j)%nat) /\
  coeff (gmul_num f n) i == n * coeff f i.
Proof. intros. split; [apply coeff_gmul | apply coeff_gmul_num]. Qed.

(* division: by zero the code raises (the model has no value), otherwise coefficientwise division *)
Theorem C16_div : forall f n,
  (n == 0 -> gdiv f n = None) /\
  (~ n == 0 -> exists h, gdiv f n = Some h /\ forall i, coeff h i == coeff f i / n).
Proof.
  intros f n. split; [apply gdiv_zero|]. intros Hn. exists (scale (1 / n) f). split; [apply gdiv_nonzero; exact Hn|].
  intros i. exact (proj2 (coeff_gdiv f n _ i (gdiv_nonzero f n Hn))).
Qed.

(* ---- derivatives, all orders, all trees *)

(* the fuel used by [deriv] (and any larger amount) suffices: the out-of-fuel value never appears *)
Theorem C16_deriv_fuel : forall k g fuel, (deriv_fuel k g <= fuel)%nat -> deriv_on fuel k g = Some (deriv k g).
Proof. exact deriv_spec. Qed.

(* [deriv] satisfies the recursion of FunctionGF/SumGF/ProductGF.derivative literally *)
Theorem C16_deriv_equations : forall k c m a b,
  deriv k (Fn c m) = Fn (dcoef c k) m /\
  deriv k (Sum a b) = Sum (deriv k a) (deriv k b) /\
  deriv 0 (Prod a b) = Prod a b /\
  deriv (S k) (Prod a b) = deriv k (Sum (Prod (deriv 1 a) b) (Prod a (deriv 1 b))).
Proof. intros. split; [apply deriv_Fn | split; [apply deriv_Sum | split; [apply deriv_Prod_0 | apply deriv_Prod_S]]]. Qed.

(* coefficient i of the k-th derivative = (i+k)!/i! * coefficient i+k *)
Theorem C16_deriv : forall k g i,
  coeff (deriv k g) i == qn (fact (i + k)) / qn (fact i) * coeff g (i + k)%nat.
Proof. exact coeff_deriv_fact. Qed.

Theorem C16_deriv_first : forall g i, coeff (deriv 1 g) i == qn (S i) * coeff g (S i).
Proof. exact coeff_deriv_1. Qed.

(* ---- evaluation *)

(* every leaf's coefficients end by its own _maxTerm (always so for coefficient lists, whose _maxTerm
   is their length; degree <= 300 for coefficient functions): evaluate() is the value of the polynomial
   with the tree's coefficients (N: any bound on its degree; the coefficients above degb are 0) *)
Theorem C16_eval : forall g x, leaves_within (fun m => m) g ->
  forall N, (degb (fun m => m) g <= N)%nat -> eval g x == sumn (S N) (fun i => coeff g i * qpow x i).
Proof. intros g x H N HN. exact (eval_cut_poly (fun m => m) g x H N HN). Qed.

Theorem C16_coeff_above_degree : forall g, leaves_within (fun m => m) g ->
  forall i, (degb (fun m => m) g < i)%nat -> coeff g i == 0.
Proof. exact (coeff_vanish (fun m => m)). Qed.

Theorem C16_eval_deriv : forall k g x, leaves_within (fun m => m) g ->
  forall N, (degb (fun m => m) g <= N)%nat ->
  eval (deriv k g) x == sumn (S N) (fun i => qn (fact (i + k)) / qn (fact i) * coeff g (i + k)%nat * qpow x i).
Proof.
  intros k g x H N HN. unfold eval. rewrite (eval_deriv (fun m => m) k g x H N HN).
  apply sumn_ext. intros i _. rewrite ffq_quot. reflexivity.
Qed.

(* scaling and differentiating keep every leaf within its loop and do not raise the degree *)
Theorem C16_closure : forall cut n k g, leaves_within cut g ->
  leaves_within cut (scale n g) /\ leaves_within cut (deriv k g) /\
  (degb cut (deriv k g) <= degb cut g)%nat /\ degb cut (scale n g) = degb cut g.
Proof.
  intros cut n k g H. destruct (deriv_within_degb cut k g H) as [V D].
  split; [apply scale_within; exact H | split; [exact V | split; [exact D | apply scale_degb]]].
Qed.

(* the loops may stop anywhere past the leaves' degrees (e.g. all at term 300, as the tree did before
   fix F12, when the leaves have degree <= 300) *)
Theorem C16_eval_cutoff : forall cut cut' g x, leaves_within cut g -> leaves_within cut' g ->
  eval_cut cut g x == eval_cut cut' g x.
Proof. exact eval_cut_indep. Qed.

(* ---- whole programs: for EVERY expression over the operators *)

(* the only failure is a division by zero somewhere in the program *)
Theorem C16_expr_defined : forall e, build e = None <-> divides_by_zero e.
Proof. exact build_None. Qed.

(* gf[i] = the coefficient computed by exact polynomial arithmetic ([sem]: sum, difference, Cauchy
   product, scaling, division, (i+k)!/i! shift, constants) *)
Theorem C16_expr_coeff : forall e g, build e = Some g -> forall i, coeff g i == sem e i.
Proof. exact build_coeff. Qed.

(* gf(x) = the value of that polynomial (coefficient lists of any length; coefficient functions
   that end by term 300) *)
Theorem C16_expr_eval : forall e g x, build e = Some g -> funcs_short e ->
  forall N, (degb (fun m => m) g <= N)%nat -> eval g x == sumn (S N) (fun i => sem e i * qpow x i).
Proof. exact build_eval. Qed.

(* tie B sums every leaf as far as the longest coefficient list: that is [eval], and for lists of at
   most 301 entries it is also the all-leaves-to-300 evaluation of the tree before fix F12 *)
Theorem C16_tie_eval_is_eval : forall e g x, build e = Some g ->
  (funcs_short e -> eval_to (max_len e) g x == eval g x) /\
  ((max_len e <= S max_term)%nat -> eval_to (max_len e) g x == eval_to max_term g x).
Proof. intros e g x Hb. split; [apply tie_eval_is_eval | apply tie_eval_is_eval_300]; exact Hb. Qed.

(* ---- non-vacuity: (1 + 2x) * ((1/2 - 3x^2) + x), its second derivative, values at 2/3 *)
Example C16_example :
  let e := EMul (ECoeffs [1; 2 # 1]) (EAdd (ECoeffs [1 # 2; 0; -3 # 1]) (EFunc [0; 1])) in
  exists g, build e = Some g /\ funcs_short e /\ leaves_within (fun m => m) g /\ degb (fun m => m) g = 302%nat /\
    list_eqb Qeq_bool (map (coeff g) [0; 1; 2; 3; 4]%nat) [1 # 2; 2 # 1; -1 # 1; -6 # 1; 0] = true /\
    coeff (deriv 2 g) 1 == -36 # 1 /\ eval_to (max_len e) g (2 # 3) == -7 # 18 /\ eval_to (max_len e) (deriv 2 g) (2 # 3) == -26 # 1.
Proof.
  cbv zeta. eexists. split; [reflexivity|]. split; [|split; [|split; [|split]]].
  - simpl. unfold max_term. lia.
  - refine (build_within_own (EMul (ECoeffs [1; 2 # 1]) (EAdd (ECoeffs [1 # 2; 0; -3 # 1]) (EFunc [0; 1]))) _ _ eq_refl).
    simpl. unfold max_term. lia.
  - reflexivity.
  - vm_compute. reflexivity.
  - split; [|split]; vm_compute; reflexivity.
Qed.
