(* placeholder while the proofs are being written *)
From EpyV Require Import Model.Loci.
