(* C01 - loci always equal the sets they are declared to track.
   Only statements here; the proofs are in Proofs/LociBase.v, LociLocus.v, LociInv.v.

   The model (Model/Loci.v) is the loci machinery of CompartmentedModel with the repairs F9
   (removeNode also removes the node's edges from the edge loci) and F10 (an edge leaving an
   edge locus is discarded in both orientations) applied.  [truth sp s] is the set the property
   names, computed from the network state alone; [Inv tbl s] says that every locus is
   duplicate-free and has exactly the elements of its truth (stored left endpoint first);
   [preb s o] is what the real code also requires of a call (the node exists and has a
   compartment attribute, the edge exists, setCompartment/addNode are used on a node without a
   compartment as their docstrings say). *)
From Coq Require Import List ZArith Bool Arith QArith.
From EpyV Require Import Model.Loci Proofs.LociBase Proofs.LociLocus Proofs.LociInv Proofs.LociRaise.
Import ListNotations.
Close Scope Q_scope.

(* every one of the six operations preserves the invariant, for every table of loci in which no
   pair of compartments can match in both orientations *)
Theorem C01_inv_ops : forall tbl s o, wf_loci tbl = true -> single_orientation tbl = true ->
  Inv tbl s -> preb s o = true -> Inv tbl (step tbl s o).
Proof. exact inv_step. Qed.

(* hence it holds after set-up (every node's compartment None, then initialCompartments as
   changeCompartment calls) and after every history of valid calls *)
Theorem C01_inv_history : forall tbl, wf_loci tbl = true -> single_orientation tbl = true ->
  forall nodes edges init ops, graph_okb nodes edges = true ->
  forallb (fun nc => zmem (fst nc) nodes) init = true ->
  validb tbl (setup tbl nodes edges init) ops = true ->
  Inv tbl (fold_left (step tbl) ops (setup tbl nodes edges init)).
Proof.
  intros tbl Hwf Hs nodes edges init ops Hg Hi Hv. apply inv_history; try assumption.
  rewrite validb_app. fold (setup tbl nodes edges init). rewrite Hv, (setup_valid tbl nodes edges init Hi). reflexivity.
Qed.

(* ... at every point at which user code can observe the simulation, not only at the end *)
Theorem C01_inv_every_point : forall tbl, wf_loci tbl = true -> single_orientation tbl = true ->
  forall nodes edges init ops k, graph_okb nodes edges = true ->
  forallb (fun nc => zmem (fst nc) nodes) init = true ->
  validb tbl (setup tbl nodes edges init) ops = true ->
  Inv tbl (fold_left (step tbl) (firstn k ops) (setup tbl nodes edges init)).
Proof.
  intros tbl Hwf Hs nodes edges init ops k Hg Hi Hv. apply C01_inv_history; try assumption.
  rewrite <- (firstn_skipn k ops), validb_app in Hv. apply andb_true_iff in Hv. exact (proj1 Hv).
Qed.

(* calls that raise an exception (unknown node, missing edge, ...) may be interleaved anywhere: they
   leave the invariant intact.  [okb]: the call satisfies its precondition or does not complete *)
Theorem C01_inv_history_with_raising_calls : forall tbl, wf_loci tbl = true -> single_orientation tbl = true ->
  forall nodes edges init ops, graph_okb nodes edges = true ->
  forallb (fun nc => zmem (fst nc) nodes) init = true ->
  admissibleb tbl (setup tbl nodes edges init) ops = true ->
  Inv tbl (fold_left (step tbl) ops (setup tbl nodes edges init)).
Proof.
  intros tbl Hwf Hs nodes edges init ops Hg Hi Hv. apply WInv_Inv; [exact Hs|].
  apply winv_admissible; [exact Hwf | | exact Hv].
  apply Inv_WInv. apply (C01_inv_history tbl Hwf Hs nodes edges init [] Hg Hi). reflexivity.
Qed.

(* the per-element event rate is the probability times the true number of eligible elements *)
Theorem C01_rate : forall tbl s i (p : Q), Inv tbl s -> i < length tbl ->
  rate p (nth i (st_loci s) []) = Qmult p (inject_Z (Z.of_nat (length (truth (nth i tbl default_spec) s)))).
Proof.
  intros tbl s i p [_ [_ H]] Hi. destruct (H i Hi) as [H1 H2]. unfold rate.
  rewrite (NoDup_same_length _ _ H1 (truth_NoDup _ s) H2). reflexivity.
Qed.

(* nothing that has left the network or the tracked condition remains drawable *)
Theorem C01_nothing_stale : forall tbl s i x, Inv tbl s -> i < length tbl -> In x (nth i (st_loci s) []) ->
  match x with N v => In v (st_nodes s) | E a b => adjb (st_edges s) a b = true end
  /\ In x (truth (nth i tbl default_spec) s).
Proof.
  intros tbl s i x [_ [_ H]] Hi Hx. destruct (H i Hi) as [_ H2]. apply H2 in Hx. split; [|exact Hx].
  apply truth_In in Hx. destruct (spec_cases (nth i tbl default_spec)) as [[c Hsp]|He].
  - rewrite Hsp in Hx. destruct x as [v|a b]; [exact (proj1 Hx) | destruct Hx].
  - destruct x as [v|a b]; [exact (False_ind _ (truthP_edge_N _ _ v He Hx))|].
    apply (truthP_edge _ _ a b He) in Hx. exact (proj1 Hx).
Qed.

(* the contents of a locus are a function of the network state alone *)
Theorem C01_state_function : forall tbl s s' i x, Inv tbl s -> Inv tbl s' -> same_network s s' -> i < length tbl ->
  (In x (nth i (st_loci s) []) <-> In x (nth i (st_loci s') [])).
Proof.
  intros tbl s s' i x [G [_ H]] [G' [_ H']] Hn Hi. destruct (H i Hi) as [_ H2]. destruct (H' i Hi) as [_ H2'].
  rewrite H2, H2', !truth_In. symmetry. apply truthP_network; assumption.
Qed.

(* ---------- loci in which a pair can match in both orientations (Opinion's PPT) ---------- *)
(* what WInv says, in terms of truth: sound, left endpoint first, complete up to orientation *)
Theorem C01_weak_meaning : forall tbl s i, WInv tbl s -> i < length tbl ->
  let l := nth i (st_loci s) [] in let t := truth (nth i tbl default_spec) s in
  NoDup l /\ (forall x, In x l -> In x t) /\ (forall x, In x t -> In x l \/ In (flip x) l).
Proof.
  intros tbl s i [_ [_ H]] Hi. destruct (H i Hi) as [H1 [H2 H3]]. cbv zeta. split; [exact H1|]. split.
  - intros x Hx. apply truth_In, H2, Hx.
  - intros x Hx. apply H3, truth_In, Hx.
Qed.

Theorem C01_weak_ops : forall tbl s o, wf_loci tbl = true -> WInv tbl s -> preb s o = true -> WInv tbl (step tbl s o).
Proof. exact winv_step. Qed.

Theorem C01_weak_history : forall tbl, wf_loci tbl = true ->
  forall nodes edges init ops, graph_okb nodes edges = true ->
  forallb (fun nc => zmem (fst nc) nodes) init = true ->
  validb tbl (setup tbl nodes edges init) ops = true ->
  WInv tbl (fold_left (step tbl) ops (setup tbl nodes edges init)).
Proof.
  intros tbl Hwf nodes edges init ops Hg Hi Hv. apply weak_history; try assumption.
  rewrite validb_app. fold (setup tbl nodes edges init). rewrite Hv, (setup_valid tbl nodes edges init Hi). reflexivity.
Qed.

(* for tables with a single orientation the weak invariant is the strong one *)
Theorem C01_weak_is_strong : forall tbl s, single_orientation tbl = true -> (WInv tbl s <-> Inv tbl s).
Proof. intros tbl s H. split; [apply WInv_Inv; exact H | apply Inv_WInv]. Qed.

(* Opinion: G = 1, P = 2, T = 3; loci G, P, T, GP, PPT as Opinion.build registers them
   (tie A checks on every run that this is the table extracted from the code) *)
Definition opinion_tbl : list spec :=
  [NodeLocus 1; NodeLocus 2; NodeLocus 3; EdgeLocus 1 2; MultiEdgeLocus 2 [2; 3]]%Z.

(* known finding (F10, orientation part): on a spreader-spreader edge PPT holds the pair in the
   orientation "who became a spreader last"; two valid histories from the same set-up state reach
   the same network state with different contents, and the strong invariant fails *)
Theorem C01_strong_refuted :
  exists ops1 ops2,
    let s0 := setup opinion_tbl [0; 1]%Z [(0, 1)]%Z [(0, 1); (1, 1)]%Z in
    let s1 := fold_left (step opinion_tbl) ops1 s0 in
    let s2 := fold_left (step opinion_tbl) ops2 s0 in
    wf_loci opinion_tbl = true /\ validb opinion_tbl s0 ops1 = true /\ validb opinion_tbl s0 ops2 = true
    /\ same_network s1 s2
    /\ nth 4 (st_loci s1) [] = [E 1 0]%Z /\ nth 4 (st_loci s2) [] = [E 0 1]%Z
    /\ ~ Inv opinion_tbl s1.
Proof.
  exists [ChangeC 0 2; ChangeC 1 2]%Z, [ChangeC 1 2; ChangeC 0 2]%Z. cbv zeta.
  split; [vm_compute; reflexivity|]. split; [vm_compute; reflexivity|]. split; [vm_compute; reflexivity|].
  split; [apply same_networkb_spec; vm_compute; reflexivity|].
  split; [vm_compute; reflexivity|]. split; [vm_compute; reflexivity|].
  intros [_ [_ H]]. destruct (H 4) as [_ H2]; [cbn; repeat constructor|].
  specialize (H2 (E 0 1)%Z). destruct H2 as [_ H2].
  assert (Hc : In (E 0 1)%Z [E 1 0]%Z).
  { replace [E 1 0]%Z with (nth 4 (st_loci (fold_left (step opinion_tbl) [ChangeC 0 2; ChangeC 1 2]%Z
        (setup opinion_tbl [0; 1]%Z [(0, 1)]%Z [(0, 1); (1, 1)]%Z))) []) by (vm_compute; reflexivity).
    apply H2. vm_compute. tauto. }
  destruct Hc as [Hc|[]]. discriminate.
Qed.

(* ---------- non-vacuity ---------- *)
(* SIR: S = 1, I = 2, R = 3; loci SI (edges S-I) and I, as SIR.build registers them.  A triangle
   S/I/I, then a history with every kind of call, including removing a node that still has edges,
   a self-loop and a node added without a compartment *)
Definition sir_tbl : list spec := [EdgeLocus 1 2; NodeLocus 2]%Z.

Example C01_example_triangle :
  let s0 := setup sir_tbl [0; 1; 2]%Z [(0, 1); (1, 2); (2, 0)]%Z [(0, 1); (1, 2); (2, 2)]%Z in
  let ops := [ChangeC 0 2; ChangeC 1 3; AddNode 3 (Some 1); AddEdge 3 0; AddEdge 2 3; RemoveNode 0; ChangeC 3 1;
              RemoveEdge 3 2; AddEdge 3 3; AddNode 4 None; SetC 4 1; AddEdge 2 4]%Z in
  wf_loci sir_tbl = true /\ single_orientation sir_tbl = true
  /\ graph_okb [0; 1; 2]%Z [(0, 1); (1, 2); (2, 0)]%Z = true
  /\ forallb (fun nc => zmem (fst nc) [0; 1; 2]%Z) [(0, 1); (1, 2); (2, 2)]%Z = true
  /\ validb sir_tbl s0 ops = true
  /\ st_loci s0 = [[E 0 1; E 0 2]; [N 1; N 2]]%Z
  /\ st_loci (fold_left (step sir_tbl) (firstn 5 ops) s0) = [[E 3 0; E 3 2]; [N 2; N 0]]%Z
  /\ st_loci (fold_left (step sir_tbl) ops s0) = [[E 4 2]; [N 2]]%Z
  /\ Inv sir_tbl (fold_left (step sir_tbl) ops s0).
Proof.
  cbv zeta. repeat (split; [vm_compute; reflexivity|]).
  apply C01_inv_history; vm_compute; reflexivity.
Qed.
